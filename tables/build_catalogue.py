#!/usr/bin/env python3
"""Hand-written definition table of the predefined quantities -> tables/catalogue.json.

Written from the published definitions of the units (SI brochure, international
yard-and-pound agreement, IEEE 1541, IAU 2012/2015 resolutions and the 'Definition'
column of the crate's documentation), NOT from the scale literals in the sources.
Each unit: (identifier, symbol, SI prefix or None, definition expression).
Definition expressions are evaluated in exact rationals by tools/tables.py:
  numbers, * / ( ), `pi`, identifiers = other units of the same quantity,
  `Quantity.Unit` = a unit of another quantity (value in that quantity's reference unit).
The order of the units is irrelevant here (the expected iteration order is computed).
"""
import json, os

Q = []


def q(crate, module, name, derived, ref, units):
    Q.append({"crate": crate, "module": module, "name": name, "derived": derived, "ref_unit": ref,
              "units": [{"ident": u[0], "symbol": u[1], "prefix": u[2], "def": u[3]} for u in units]})


# ---------------------------------------------------------------- main crate
q("quantities", "mass", "Mass", None, "Kilogram", [
    ("Kilogram", "kg", "KILO", "1"),
    ("Milligram", "mg", "MILLI", "0.001 * Gram"),
    ("Carat", "ct", None, "0.2 * Gram"),
    ("Gram", "g", "NONE", "0.001 * Kilogram"),
    ("Ounce", "oz", None, "Pound / 16"),
    ("Pound", "lb", None, "0.45359237 * Kilogram"),
    ("Stone", "st", None, "14 * Pound"),
    ("Tonne", "t", "MEGA", "1000 * Kilogram"),
])
q("quantities", "length", "Length", None, "Meter", [
    ("Meter", "m", "NONE", "1"),
    ("Nanometer", "nm", "NANO", "Meter / 1000000000"),
    ("Micrometer", "µm", "MICRO", "Meter / 1000000"),
    ("Millimeter", "mm", "MILLI", "Meter / 1000"),
    ("Centimeter", "cm", "CENTI", "Meter / 100"),
    ("Inch", "in", None, "2.54 * Centimeter"),
    ("Decimeter", "dm", "DECI", "Meter / 10"),
    ("Foot", "ft", None, "12 * Inch"),
    ("Yard", "yd", None, "3 * Foot"),
    ("Chain", "ch", None, "22 * Yard"),
    ("Furlong", "fur", None, "10 * Chain"),
    ("Kilometer", "km", "KILO", "1000 * Meter"),
    ("Mile", "mi", None, "8 * Furlong"),
])
q("quantities", "duration", "Duration", None, "Second", [
    ("Second", "s", "NONE", "1"),
    ("Nanosecond", "ns", "NANO", "Second / 1000000000"),
    ("Microsecond", "µs", "MICRO", "Second / 1000000"),
    ("Millisecond", "ms", "MILLI", "Second / 1000"),
    ("Minute", "min", None, "60 * Second"),
    ("Hour", "h", None, "60 * Minute"),
    ("Day", "d", None, "24 * Hour"),
])
q("quantities", "area", "Area", {"lhs": "Length", "op": "*", "rhs": "Length"}, "Square_Meter", [
    ("Square_Meter", "m²", "NONE", "Length.Meter * Length.Meter"),
    ("Square_Millimeter", "mm²", "MICRO", "Length.Millimeter * Length.Millimeter"),
    ("Square_Centimeter", "cm²", None, "Length.Centimeter * Length.Centimeter"),
    ("Square_Inch", "in²", None, "Length.Inch * Length.Inch"),
    ("Square_Decimeter", "dm²", "CENTI", "Length.Decimeter * Length.Decimeter"),
    ("Square_Foot", "ft²", None, "Length.Foot * Length.Foot"),
    ("Square_Yard", "yd²", None, "Length.Yard * Length.Yard"),
    ("Are", "a", "HECTO", "100 * Square_Meter"),
    ("Acre", "ac", None, "4840 * Square_Yard"),
    ("Hectare", "ha", None, "100 * Are"),
    ("Square_Kilometer", "km²", "MEGA", "Length.Kilometer * Length.Kilometer"),
    ("Square_Mile", "mi²", None, "Length.Mile * Length.Mile"),
])
q("quantities", "volume", "Volume", {"lhs": "Length", "op": "*", "rhs": "Area"}, "Cubic_Meter", [
    ("Cubic_Meter", "m³", "NONE", "Length.Meter * Length.Meter * Length.Meter"),
    ("Cubic_Millimeter", "mm³", "NANO", "Length.Millimeter * Length.Millimeter * Length.Millimeter"),
    ("Cubic_Centimeter", "cm³", "MICRO", "Length.Centimeter * Length.Centimeter * Length.Centimeter"),
    ("Milliliter", "ml", "MICRO", "0.001 * Liter"),
    ("Centiliter", "cl", None, "0.01 * Liter"),
    ("Cubic_Inch", "in³", None, "Length.Inch * Length.Inch * Length.Inch"),
    ("Deciliter", "dl", None, "0.1 * Liter"),
    ("Cubic_Decimeter", "dm³", "MILLI", "Length.Decimeter * Length.Decimeter * Length.Decimeter"),
    ("Liter", "l", "MILLI", "0.001 * Cubic_Meter"),
    ("Cubic_Foot", "ft³", None, "Length.Foot * Length.Foot * Length.Foot"),
    ("Cubic_Yard", "yd³", None, "Length.Yard * Length.Yard * Length.Yard"),
    ("Cubic_Kilometer", "km³", "GIGA", "Length.Kilometer * Length.Kilometer * Length.Kilometer"),
])
q("quantities", "speed", "Speed", {"lhs": "Length", "op": "/", "rhs": "Duration"}, "Meter_per_Second", [
    ("Meter_per_Second", "m/s", "NONE", "Length.Meter / Duration.Second"),
    ("Kilometer_per_Hour", "km/h", None, "Length.Kilometer / Duration.Hour"),
    ("Miles_per_Hour", "mph", None, "Length.Mile / Duration.Hour"),
])
q("quantities", "acceleration", "Acceleration", {"lhs": "Speed", "op": "/", "rhs": "Duration"}, "Meter_per_Second_squared", [
    ("Meter_per_Second_squared", "m/s²", "NONE", "Length.Meter / (Duration.Second * Duration.Second)"),
    ("Yards_per_Second_squared", "yd/s²", None, "Length.Yard / (Duration.Second * Duration.Second)"),
])
q("quantities", "force", "Force", {"lhs": "Mass", "op": "*", "rhs": "Acceleration"}, "Newton", [
    ("Newton", "N", "NONE", "Mass.Kilogram * Acceleration.Meter_per_Second_squared"),
    ("Joule_per_Meter", "J/m", "NONE", "Newton * Length.Meter / Length.Meter"),
])
q("quantities", "energy", "Energy", {"lhs": "Force", "op": "*", "rhs": "Length"}, "Joule", [
    ("Joule", "J", "NONE", "Force.Newton * Length.Meter"),
    ("Newton_Meter", "Nm", "NONE", "Force.Newton * Length.Meter"),
    ("Watt_Second", "Ws", "NONE", "Joule / Duration.Second * Duration.Second"),
    ("Kilowatt_Hour", "kWh", None, "1000 * Joule / Duration.Second * Duration.Hour"),
])
q("quantities", "power", "Power", {"lhs": "Energy", "op": "/", "rhs": "Duration"}, "Watt", [
    ("Watt", "W", "NONE", "Energy.Joule / Duration.Second"),
    ("Milliwatt", "mW", "MILLI", "Watt / 1000"),
    ("Kilowatt", "kW", "KILO", "1000 * Watt"),
    ("Megawatt", "MW", "MEGA", "1000000 * Watt"),
    ("Gigawatt", "GW", "GIGA", "1000000000 * Watt"),
    ("Terawatt", "TW", "TERA", "1000000000000 * Watt"),
])
q("quantities", "frequency", "Frequency", {"lhs": "AmountT", "op": "/", "rhs": "Duration"}, "Hertz", [
    ("Hertz", "Hz", "NONE", "1 / Duration.Second"),
    ("Kilohertz", "kHz", "KILO", "1000 * Hertz"),
    ("Megahertz", "MHz", "MEGA", "1000000 * Hertz"),
    ("Gigahertz", "GHz", "GIGA", "1000000000 * Hertz"),
])
_dv = [
    ("Byte", "B", "NONE", "1"),
    ("Bit", "b", None, "Byte / 8"),
    ("Kilobit", "kb", None, "1000 * Bit"),
    ("Kibibit", "Kib", None, "1024 * Bit"),
    ("Kilobyte", "kB", "KILO", "1000 * Byte"),
    ("Kibibyte", "KiB", None, "1024 * Byte"),
    ("Megabit", "Mb", None, "1000 * Kilobit"),
    ("Mebibit", "Mib", None, "1024 * Kibibit"),
    ("Megabyte", "MB", "MEGA", "1000 * Kilobyte"),
    ("Mebibyte", "MiB", None, "1024 * Kibibyte"),
    ("Gigabit", "Gb", None, "1000 * Megabit"),
    ("Gibibit", "Gib", None, "1024 * Mebibit"),
    ("Gigabyte", "GB", "GIGA", "1000 * Megabyte"),
    ("Gibibyte", "GiB", None, "1024 * Mebibyte"),
    ("Terabit", "Tb", None, "1000 * Gigabit"),
    ("Tebibit", "Tib", None, "1024 * Gibibit"),
    ("Terabyte", "TB", "TERA", "1000 * Gigabyte"),
    ("Tebibyte", "TiB", None, "1024 * Gibibyte"),
]
q("quantities", "datavolume", "DataVolume", None, "Byte", _dv)
q("quantities", "datathroughput", "DataThroughput", {"lhs": "DataVolume", "op": "/", "rhs": "Duration"}, "Byte_per_Second",
  [(i + "_per_Second", s + "/s", p, "DataVolume.%s / Duration.Second" % i) for (i, s, p, _) in _dv])
q("quantities", "temperature", "Temperature", None, None, [
    ("Kelvin", "K", None, None),
    ("Degree_Celsius", "°C", None, None),
    ("Degree_Fahrenheit", "°F", None, None),
])

# ---------------------------------------------------------------- astronomical crate (f64 only)
# IAU 2012 B2: au = 149 597 870 700 m exactly; parsec = 648000/pi au; c = 299 792 458 m/s;
# Julian year = 365.25 d; d = 86400 s.
q("astro", "", "Mass", None, "Solar_Mass", [
    ("Solar_Mass", "M☉", None, "1"),
    ("Lunar_Mass", "M☾", None, "Solar_Mass / 27068510"),
    ("Earth_Mass", "M🜨", None, "10000 * Solar_Mass / 3329460487"),
    ("Jupiter_Mass", "M♃", None, "1000000 * Solar_Mass / 1047348644"),
])
q("astro", "", "Length", None, "Astronomical_Unit", [
    ("Astronomical_Unit", "au", None, "1"),
    ("Kilometer", "km", None, "1000 * Astronomical_Unit / 149597870700"),
    ("Lightsecond", "ls", None, "299792458 * Astronomical_Unit / 149597870700"),
    ("Lightyear", "ly", None, "31557600 * Lightsecond"),
    ("Parsec", "pc", None, "648000 / pi * Astronomical_Unit"),
    ("Kilolightyear", "kly", None, "1000 * Lightyear"),
    ("Kiloparsec", "kpc", None, "1000 * Parsec"),
    ("Megalightyear", "Mly", None, "1000000 * Lightyear"),
    ("Megaparsec", "Mpc", None, "1000000 * Parsec"),
    ("Gigalightyear", "Gly", None, "1000000000 * Lightyear"),
    ("Gigaparsec", "Gpc", None, "1000000000 * Parsec"),
])
q("astro", "", "Duration", None, "Day", [
    ("Day", "d", None, "1"),
    ("Second", "s", None, "Day / 86400"),
    ("Minute", "min", None, "60 * Second"),
    ("Hour", "h", None, "60 * Minute"),
    ("Sideral_Day", "dₛ", None, "Julian_Year * Day / (Julian_Year + Day)"),
    ("Julian_Year", "a", None, "365.25 * Day"),
    ("Gregorian_Year", "yr", None, "365.2425 * Day"),
    ("Earth_Period", "T🜨", None, "365.256363004 * Day"),
])
q("astro", "", "Speed", {"lhs": "Length", "op": "/", "rhs": "Duration"}, "Astronomical_Units_per_Day", [
    ("Astronomical_Units_per_Day", "au/d", None, "Length.Astronomical_Unit / Duration.Day"),
    ("Kilometer_per_Hour", "km/h", None, "Length.Kilometer / Duration.Hour"),
    ("Meter_per_Second", "m/s", None, "Length.Kilometer / 1000 / Duration.Second"),
    ("Speed_of_Light", "c", None, "Length.Lightsecond / Duration.Second"),
])

if __name__ == "__main__":
    here = os.path.dirname(os.path.abspath(__file__))
    with open(os.path.join(here, "catalogue.json"), "w", encoding="utf-8") as f:
        json.dump({"_comment": "generated by tables/build_catalogue.py (hand-written definitions)", "quantities": Q},
                  f, ensure_ascii=False, indent=1)
    n = sum(len(x["units"]) for x in Q if x["crate"] == "quantities")
    m = sum(len(x["units"]) for x in Q if x["crate"] == "astro")
    print("catalogue units:", n, "astro units:", m)
