"""C06 thorough tier: real single-expression programs judged on rustc diagnostics, probe <=> compiler
agreement, and probe matrices of randomly generated derivation graphs."""
import os, json
import framework as fw
import proglane as pl
import derivlane as dl
import defgen
import c06
import c11
from common import Rng, load_table

OPS = [("add", "+"), ("sub", "-"), ("mul", "*"), ("div", "/"), ("eq", "=="), ("ord", "<")]


def rust_path(t):
    if t == "AmountT":
        return "quantities::AmountT"
    return "quantities::%s::%s" % (t.lower(), t)


def batch_source(cells, ascribe=None):
    """One function per line; returns (source, {line: cell})."""
    lines = ["#![allow(unused)]", "// one single-expression program per line"]
    where = {}
    for (L, R, col, sym) in cells:
        n = len(lines) + 1
        if ascribe is None:
            lines.append("fn c%04d(a: %s, b: %s) { let _ = a %s b; }" % (n, rust_path(L), rust_path(R), sym))
        else:
            out = ascribe[(L, R, col)]
            lines.append("fn t%04d(a: %s, b: %s) { let _: %s = a %s b; }" % (n, rust_path(L), rust_path(R), rust_path(out) if out != "bool" else "bool", sym))
        where[n] = (L, R, col)
    lines.append("fn main() {}")
    return "\n".join(lines) + "\n", where


def run(total, env, seed, nproc):
    extra = {"programs": 0, "probe_vs_compiler_cells": 0, "generated_graph_types": 0}
    rng = Rng("%s/C06prog" % seed)
    for b in ("f64", "dec"):
        kinds = c06.universe_kinds(env[b]["reg"])
        kinds["AmountT"] = "ref"
        inst = [i[:4] for i in dl.expected_instances(b)]
        rows = fw.run_exec(env[b]["bins"]["x_derived"], [{"op": "probes"}])[0]["rows"]
        probe = {}
        for row in rows:
            L, R = dl.norm_type(row["l"]), dl.norm_type(row["r"])
            o = dict(zip(c06.COLS, row["t"]))
            o["eq"], o["ord"] = row["eq"], row["ord"]
            probe[(L, R)] = o
        cells = []
        expect = {}
        for L in c06.CATALOGUE15:
            for R in c06.CATALOGUE15:
                exp = c06.expected_cell(L, R, kinds, inst)
                for col, sym in OPS:
                    cells.append((L, R, col, sym))
                    expect[(L, R, col)] = None if exp is None else exp[col]
        src, where = batch_source(cells)
        # ascription batch for licensed cells
        asc = {}
        asc_cells = []
        for (L, R, col, sym) in cells:
            e = expect[(L, R, col)]
            if e in (None, False):
                continue
            asc[(L, R, col)] = "bool" if e is True else e
            asc_cells.append((L, R, col, sym))
        asrc, awhere = batch_source(asc_cells, asc)
        examples = {"batch": src, "ascribe": asrc}
        # a random 10 % as individually compiled targets
        singles = rng.sample(cells, len(cells) // 10)
        for i, (L, R, col, sym) in enumerate(singles):
            examples["one%04d" % i] = "#![allow(unused)]\nfn c(a: %s, b: %s) { let _ = a %s b; }\nfn main() {}\n" % (rust_path(L), rust_path(R), sym)
        res, cdir, proc = pl.check_examples("c06", examples, b)
        extra["programs"] += len(cells) + len(asc_cells) + len(singles)
        if not res["batch"]["errors"] and not res["batch"]["artifact"]:
            total.inconclusive.append("C06 batch compile produced nothing (%s): %s" % (b, proc.stderr[-300:]))
            continue
        err_lines = {}
        for e in res["batch"]["errors"]:
            if e["line"] in where:
                err_lines.setdefault(e["line"], []).append(e)
            else:
                total.notes.append("batch diagnostic outside any cell line: %s" % (e,))
        aerr = {}
        for e in res["ascribe"]["errors"]:
            aerr.setdefault(e["line"], []).append(e)

        def viol(kind, L, R, col, text):
            sig = {"backend": b, "kind": kind, "L": L, "R": R, "op": col, "class": {"kind": kind, "backend": b, "L": L, "R": R, "op": col}}
            total.violation(sig, "C06 %s: %s program `%s %s %s`: %s" % (kind, b, L, dict(OPS)[col], R, text),
                            {"module": "c06", "backend": b, "kind": "program", "case": {"L": L, "R": R}})
        for line, (L, R, col) in where.items():
            total.evals += 1
            accepted = line not in err_lines
            e = expect[(L, R, col)]
            if L == "AmountT" and R == "AmountT":
                continue
            if e is None or e is False:
                if accepted:
                    viol("program_accepted", L, R, col, "the compiler accepts a dimensionally meaningless expression")
                else:
                    codes = set(x["code"] for x in err_lines[line])
                    if not codes & {"E0277", "E0308", "E0369"}:
                        total.notes.append("unusual rejection codes %s at %s %s %s" % (codes, L, col, R))
            else:
                if not accepted and not (col in ("eq", "ord") and kinds.get(L) == "single"):
                    viol("program_rejected", L, R, col, "licensed expression does not type-check: %s" % (err_lines[line][0]["message"][:200]))
            # probe <=> compiler agreement
            p = probe[(L, R)][col]
            p_ok = bool(p)
            if p_ok != accepted:
                viol("probe_disagrees", L, R, col, "run-time probe says %s, compiler says %s" % (p, "accepted" if accepted else "rejected"))
            extra["probe_vs_compiler_cells"] += 1
            total.cell(b, "program", L, R, col)
        for line, (L, R, col) in awhere.items():
            total.evals += 1
            if line in aerr:
                viol("ascribed_type", L, R, col, "result does not have the declared type %s: %s" % (asc[(L, R, col)], aerr[line][0]["message"][:200]))
        # individually compiled sample confirms the batch attribution
        for i, (L, R, col, sym) in enumerate(singles):
            total.evals += 1
            line = next(l for l, c in where.items() if c == (L, R, col))
            ok_single = res["one%04d" % i]["ok"]
            if ok_single != (line not in err_lines):
                total.inconclusive.append("batch attribution differs from the individual compile at %s %s %s" % (L, col, R))
        total.sample({"backend": b, "program": "fn c(a: Length, b: Duration) { let _ = a * b; }",
                      "verdict": [x for l, x in err_lines.items() if where[l] == ("Length", "Duration", "mul")][:1],
                      "expectation": "rejected (only Length / Duration is declared)"}, limit=4)
        pl.cleanup(cdir)
        # randomly generated derivation graphs with their own probe matrix
        grng = Rng("%s/C06graphs/%s" % (seed, b))
        g = defgen.DefGen(grng, tag="Q")
        groups = []
        for i in range(12):
            grp = c11.gen_group(g, i, grng)
            while grp["shape"] in ("basic_ref", "basic_noref", "single"):
                grp = c11.gen_group(g, i, grng)
            # extra bystander types in the same module: must not combine with anything
            grp["defs"].append(g.definition(grng.choice(["ref", "noref", "single"])))
            groups.append(grp)
        modules = [{"name": "g%d" % grp["idx"], "defs": [(d, None) for d in grp["defs"]]} for grp in groups]
        binp, diags, gdir = pl.build_executor("c06graphs", modules, b)
        if binp is None:
            total.inconclusive.append("generated derivation graphs do not build (%s): %s" % (b, diags[:2]))
            continue
        rows = fw.run_exec(binp, [{"op": "probes"}])[0]["rows"]
        for m in modules:
            key = lambda t: "AmountT" if t == "AmountT" else "%s::%s" % (m["name"], t)
            gk = {key(d["name"]): defgen.kind_of(d) for d, _ in m["defs"]}
            gk["AmountT"] = "ref"
            ginst = [(key(l), op, key(r), key(o)) for (l, op, r, o) in pl.instances_of(m["defs"])]
            mrows = [r for r in rows if all(dl.norm_type(x) in gk for x in (r["l"], r["r"]))]
            c06.judge_matrix(total, b, mrows, gk, ginst, {}, label="generated:" + m["name"])
            extra["generated_graph_types"] += len(m["defs"])
        pl.cleanup(gdir)
    return extra
