"""C11 - Generated types reflect their declaration in any order or literal form."""
import os, json, shutil
from fractions import Fraction
import framework as fw
import corelane as cl
import derivlane as dl
import registry
import proglane as pl
import defgen
import oracle as orc
import tables
import c01, c02, c03, c04, c05, c08, c09, c10, c15
from common import Rng, frac_of, f64_bits, enc_round, NCPU

PID = "C11"
RULE = ("randomly generated well-formed definitions (1-10 units; identifiers from a word grammar; symbols incl. non-ASCII, multi-character and "
        "prefixes of each other; scale literals as 1000 / 1000. / 1000.0 / 0.001 / 0.0010 with ties; optional SI prefix and doc; #[ref_unit] at "
        "any position; doc comments and other attributes interleaved; with/without reference unit; single unit; derived as A*B, A*A, A/B, "
        "AmountT/A over earlier definitions), each emitted in k attribute permutations as modules of ONE generated executor per back-end that "
        "instantiates the same handler macros as x_core/x_derived; judged by an independent model of the declared semantics (tools/defgen.py), "
        "by the C01-C05/C08/C09/C10/C15 oracles on sample amounts, and by cross-permutation comparison; cell = (backend,group,permutation,"
        "type,check); non-trivial = every generated type")


SHAPES = ["basic_ref", "basic_noref", "single", "prod", "square", "quot", "recip", "big_ref"]


def gen_group(g, idx, rng, shape=None):
    """A group = list of definitions living in one module."""
    shape = shape or rng.choice(SHAPES)
    defs = []
    if shape in ("basic_ref", "basic_noref", "single"):
        defs.append(g.definition({"basic_ref": "ref", "basic_noref": "noref", "single": "single"}[shape]))
    elif shape == "big_ref":
        # more than 20 units with many scale ties in random declaration order: the size at which sort
        # implementations change algorithm (an unstable sort keeps ties in order below it)
        defs.append(g.definition("ref", n_units=rng.randint(22, 34), tie_p=0.55))
    else:
        a = g.definition("ref", n_units=rng.randint(2, 5))
        defs.append(a)
        if shape in ("prod", "quot"):
            bdef = g.definition("ref", n_units=rng.randint(2, 5))
            defs.append(bdef)
        lhs = a["name"]
        if shape == "prod":
            derived = {"lhs": lhs, "op": "*", "rhs": defs[1]["name"]}
        elif shape == "square":
            derived = {"lhs": lhs, "op": "*", "rhs": lhs}
        elif shape == "quot":
            derived = {"lhs": lhs, "op": "/", "rhs": defs[1]["name"]}
        else:
            derived = {"lhs": "AmountT", "op": "/", "rhs": lhs}
        res = g.definition("ref", n_units=rng.randint(2, 6), derived=derived)
        # give the result a few natural units: scale = scale product / quotient of operand units when short enough
        sa = [Fraction(1)] + [defgen.lit_value(u["scale"]) for u in a["units"]]
        sb = [Fraction(1)] + ([defgen.lit_value(u["scale"]) for u in defs[1]["units"]] if shape in ("prod", "quot") else
                              ([defgen.lit_value(u["scale"]) for u in a["units"]] if shape == "square" else []))
        for u in res["units"]:
            if rng.random() < 0.5 and sb:
                x, y = rng.choice(sa), rng.choice(sb)
                v = x * y if shape in ("prod", "square") else (x / y if shape == "quot" else 1 / x)
                lit = short_literal(v)
                if lit and v != 1:
                    u["scale"] = lit
                    u["prefix"] = None if res["ref"]["prefix"] is None or rng.random() < 0.5 else u["prefix"]
        defs.append(res)
    # interleaved extras and styles
    for d in defs:
        ex = {}
        st = {}
        for pos in range(len(d["attrs"]) + 1):
            if rng.random() < 0.15:
                ex[pos] = [rng.choice(["/// interleaved doc line", "#[allow(dead_code)]", "#[doc = \"attribute doc\"]", "// plain comment"])]
            if rng.random() < 0.15:
                st[pos] = 1
        d["extras"] = ex
        d["styles"] = st
    return {"idx": idx, "shape": shape, "defs": defs}


def short_literal(v):
    """Literal text of a rational with <= 15 significant digits and <= 18 fractional digits, else None."""
    if v <= 0 or not tables.is_terminating_decimal(v):
        return None
    nd = tables.frac_digits(v)
    if nd > 18:
        return None
    s = str(v.numerator * 10 ** nd // v.denominator)
    if len(s.strip("0")) > 15:
        return None
    if nd == 0:
        if v > 2147483647:
            return str(int(v)) + "."
        return str(int(v))
    s = s.rjust(nd + 1, "0")
    return s[:-nd] + "." + s[-nd:]


def make_modules(groups, rng, k):
    """Each group in k attribute permutations -> module list; returns modules and bookkeeping."""
    modules = []
    for grp in groups:
        perms_per_def = [defgen.permutations_of(d, rng, k) for d in grp["defs"]]
        for p in range(k):
            mname = "g%d_p%d" % (grp["idx"], p)
            defs = []
            for d, perms in zip(grp["defs"], perms_per_def):
                attrs = perms[p % len(perms)]
                defs.append((d, attrs))
            modules.append({"name": mname, "defs": defs, "group": grp["idx"], "perm": p})
    return modules


def declared_for(d, attrs):
    ents = defgen.expected_registry(d, attrs)
    ents_decl = sorted(ents, key=lambda e: e["decl_pos"])
    return (d["ref"] is not None), ents_decl


def judge_attrs(part, b, key, ent, d, attrs, viol):
    has_ref, ents = declared_for(d, attrs)
    obs = {u["dbg"]: u for u in ent["units"]}
    for e in ents:
        u = obs.get(e["variant"])
        if u is None:
            continue
        part.evals += 1
        if u["name"] != e["name"]:
            viol("name", key, "%s: name() = %r, declared identifier spells %r" % (e["variant"], u["name"], e["name"]))
        if u["symbol"] != e["symbol"]:
            viol("symbol", key, "%s: symbol() = %r, declared %r" % (e["variant"], u["symbol"], e["symbol"]))
        if u["prefix"] != e["prefix"]:
            viol("prefix", key, "%s: si_prefix() = %s, declared %s" % (e["variant"], u["prefix"], e["prefix"]))
        if has_ref:
            want = e["scale"]
            if b == "dec":
                ok = u["scale"] == want
            else:
                ok = u["scale_enc"] == f64_bits(float(want))
            if not ok:
                viol("scale", key, "%s: scale() = %s, the literal's value in the amount type is %s" % (e["variant"], u["scale_enc"], want))
    kind = defgen.kind_of(d)
    if ent["kind"] != kind:
        viol("kind", key, "generated as %s, declared %s" % (ent["kind"], kind))


def run_backend(args):
    b, groups, k, seed, tier = args
    part = fw.Part()
    try:
        return _run_backend(part, b, groups, k, seed, tier)
    except fw.Inconclusive as e:
        part.inconclusive.append(str(e))
        return part


def _run_backend(part, b, groups, k, seed, tier):
    rng = Rng("%s/C11/%s" % (seed, b))
    modules = make_modules(groups, Rng("%s/C11/perms" % seed), k)
    binp, diags, cdir = pl.build_executor("c11", modules, b)

    def viol(kind, key, text, case=None):
        sig = {"backend": b, "kind": kind, "type": key, "class": {"kind": kind, "backend": b, "type": key}}
        part.violation(sig, "C11 %s: %s %s: %s" % (kind, b, key, text),
                       {"module": "c11", "backend": b, "kind": "generated", "crate": cdir, "case": case})
    if binp is None:
        ok, err = fw.repo_builds(b)
        if not ok:
            raise fw.Inconclusive("/repo does not build (%s)" % b)
        if not diags:
            # cargo ended without a single compiler error (killed, disk, lock ...): nothing was observed about the definitions
            raise fw.Inconclusive("building the generated executor (%s) failed without a compiler diagnostic" % b)
        part.evals += 1
        msg = "; ".join("%s:%s %s" % (d["file"], d["line"], (d["message"] or "")[:160]) for d in diags[:4])
        viol("does_not_compile", "generated executor", "well-formed generated definitions do not compile: %s (sources kept in %s)" % (msg, cdir))
        return part
    reg = registry.load(b, {"x_core": binp})
    consts = fw.run_exec(binp, [{"op": "constants"}])[0]["constants"]
    dumps = {}
    tasks = []
    for m in modules:
        for d, attrs in m["defs"]:
            key = "%s::%s" % (m["name"], d["name"])
            ent = reg[key]
            dumps[key] = ent
            decl = declared_for(d, attrs)
            before = len(part.violations)
            c09.judge_registry(part, b, key, ent, decl=decl)
            judge_attrs(part, b, key, ent, d, attrs, viol)
            # constants
            _, ents = decl
            for e in ents:
                part.evals += 1
                c = next((c for c in consts if c["ty"] == key and c["const"] == e["const"]), None)
                if c is None or c["dbg"] != e["variant"]:
                    viol("constant", key, "constant %s is %s, expected unit %s" % (e["const"], c and c["dbg"], e["variant"]))
            part.cell(b, m["group"], m["perm"], d["name"], "registry")
            kind = ent["kind"]
            base = {"backend": b, "ty": key, "entry": ent, "bin": binp, "seed": seed, "decl": decl}
            n = 2 if tier == "quick" else 6
            if kind == "ref":
                tasks += [("c01", dict(base, n=n)), ("c02", dict(base, n=max(3, n))), ("c03", dict(base, n=n))]
            if kind in ("noref", "single"):
                tasks.append(("c10", dict(base, n=4 if tier == "quick" else 12)))
            tasks.append(("c08", dict(base, n=2, nk=4)))
            tasks.append(("c09", dict(base, nrand=5 if tier == "quick" else 30)))
            tasks.append(("c15", dict(base, na=2, ns=4, kind="qty")))
        for (l, op, r, o) in pl.instances_of(m["defs"]):
            kk = lambda t: "AmountT" if t == "AmountT" else "%s::%s" % (m["name"], t)
            inst = [kk(l), op, kk(r), kk(o)]
            insts_mod = [[kk(x[0]), x[1], kk(x[2]), kk(x[3])] for x in pl.instances_of(m["defs"])]
            t = {"backend": b, "inst": inst, "l": reg[inst[0]], "r": reg[inst[2]], "out": reg[inst[3]], "n": 2 if tier == "quick" else 5,
                 "seed": seed, "bin": binp, "inst_all": insts_mod, "tier": "quick", "kind": "derived"}
            tasks.append(("c04", t))
            tasks.append(("c05", t))
    part._tasks = [(mn, t, b, cdir) for (mn, t) in tasks]
    # cross-permutation comparison
    for grp in groups:
        for d in grp["defs"]:
            base_key = "g%d_p0::%s" % (grp["idx"], d["name"])
            e0 = dumps[base_key]
            for p in range(1, k):
                key = "g%d_p%d::%s" % (grp["idx"], p, d["name"])
                e1 = dumps[key]
                part.evals += 1
                a0 = {u["dbg"]: {x: u.get(x) for x in ("name", "symbol", "prefix", "scale_enc", "is_ref")} for u in e0["units"]}
                a1 = {u["dbg"]: {x: u.get(x) for x in ("name", "symbol", "prefix", "scale_enc", "is_ref")} for u in e1["units"]}
                if a0 != a1:
                    viol("permutation", key, "reordering the unit attributes changed unit attributes: %s vs %s" % (a0, a1))
                # order may differ only among units of equal scale
                o0 = [u["dbg"] for u in e0["units"]]
                o1 = [u["dbg"] for u in e1["units"]]
                if e0["kind"] == "ref":
                    sc = {u["dbg"]: u["scale"] for u in e0["units"]}
                    if [sc[x] for x in o0] != [sc.get(x) for x in o1]:
                        viol("permutation_order", key, "iteration order differs beyond ties: %s vs %s" % (o0, o1))
                elif o0 != o1:
                    viol("permutation_order", key, "iteration order of a type without reference unit depends on attribute order: %s vs %s" % (o0, o1))
                part.cell(b, grp["idx"], p, d["name"], "permutation")
    part.sample({"backend": b, "module": modules[0]["name"], "source": pl.module_source(modules[0]["name"], modules[0]["defs"]).split("\n")[:14],
                 "observed_units": [u["dbg"] for u in dumps["%s::%s" % (modules[0]["name"], modules[0]["defs"][0][0]["name"])]["units"]]}, limit=1)
    part.counters["generated_types_%s" % b] = len(dumps)
    part.counters["generated_groups"] = len(groups)
    part._cdir = cdir
    return part


MODS = {"c01": c01, "c02": c02, "c03": c03, "c04": c04, "c05": c05, "c08": c08, "c09": c09, "c10": c10, "c15": c15}


def sub_work(args):
    """One operator workload on a generated type, judged by the oracle of the named property."""
    mn, t, b, cdir = args
    part = fw.Part()
    sub = MODS[mn].work(t)
    # the Decimal precision cap of the dependency is C15's known finding, not a matter of code generation
    kept = [v for v in sub.violations if v["sig"].get("kind") != "precision_capped_18"]
    part.count("c15_known_precision_cap_skipped", len(sub.violations) - len(kept))
    sub.violations = kept
    for v in sub.violations:
        v["text"] = "C11 [operators of a generated type, %s oracle] %s" % (mn.upper(), v["text"])
        v["sig"] = dict(v["sig"], via=mn.upper())
        v["sig"]["class"] = dict(v["sig"].get("class", {}), via=mn.upper())
        v["replay"] = {"module": "c11", "backend": b, "kind": "generated", "crate": cdir, "inner": v["replay"]}
    sub.samples = sub.samples[:1] if mn in ("c01", "c04") else []
    part.merge(sub)
    part.count("operator_tasks_" + mn)
    return part


def generate(seed, n_groups):
    rng = Rng("%s/C11/gen" % seed)
    g = defgen.DefGen(rng)
    groups = []
    for i in range(n_groups):
        groups.append(gen_group(g, i, rng, SHAPES[i % len(SHAPES)]))      # every shape in every run
    return groups


def main(tier, seed, nproc, t0):
    n_groups, k = (8, 3) if tier == "quick" else (30, 4)
    total = fw.Part()
    rounds = 1 if tier == "quick" else 3
    from concurrent.futures import ThreadPoolExecutor
    for rd in range(rounds):
        groups = generate("%s/%d" % (seed, rd), n_groups)
        # phase A: build the generated executor per back-end (two cargo builds in parallel), judge registries
        with ThreadPoolExecutor(2) as ex:
            parts = list(ex.map(run_backend, [(b, groups, k, seed, tier) for b in ("f64", "dec")]))
        tasks = []
        cdirs = []
        for p in parts:
            tasks.extend(getattr(p, "_tasks", []))
            if getattr(p, "_cdir", None):
                cdirs.append(p._cdir)
            total.merge(p)
        # phase B: operator workloads on the generated types, all cores
        total.merge(fw.run_tasks("c11", "sub_work", tasks, nproc))
        if not total.violations:
            for c in cdirs:
                pl.cleanup(c)
    adversarial(total, seed)
    synthetic_universe(total)
    exponent_literals(total)
    return fw.finish(PID, tier, seed, total, t0, RULE, min_evals=200,
                     assumptions=["the generator's grammar: ASCII word identifiers without digits, literals without suffix/exponent, <= 15 significant digits, "
                                  "unsuffixed integer literals <= i32::MAX (see DESIGN.md 4.4)",
                                  "independent model of the declared semantics in tools/defgen.py"])


def synthetic_universe(total):
    """The hand-written synthetic definitions compiled into x_core are macro-generated types too:
    their registries are judged against tables/synthetic.json with the same model."""
    import declared
    env = cl.prepare(("f64", "dec"), ("x_core",))
    for b in ("f64", "dec"):
        reg = env[b]["reg"]
        for name, d in declared.synthetic().items():
            if name not in reg:
                continue                       # f64-only definitions
            ent = reg[name]

            def viol(kind, key, text, case=None):
                sig = {"backend": b, "kind": kind, "type": key, "class": {"kind": kind, "backend": b, "type": key}}
                total.violation(sig, "C11 %s: %s %s: %s" % (kind, b, key, text), {"module": "c11", "backend": b, "kind": "synthetic", "type": key})
            c09.judge_registry(total, b, name, ent, decl=declared_for(d, d["attrs"]))
            judge_attrs(total, b, name, ent, d, d["attrs"], viol)
            total.cell(b, "synthetic", name, "registry")


ADV_INT = """use quantities::prelude::*;
#[quantity]
#[ref_unit(Base, "b")]
#[unit(Big, "B", 3000000000)]
pub struct AdvInt {}
fn main() {}
"""


def adversarial(total, seed):
    """Two groups at the limits of the declared grammar, reported separately (DESIGN.md 4.4)."""
    # (1) integer scale literal above i32::MAX
    for b in ("f64", "dec"):
        res, cdir, proc = pl.check_examples("c11adv", {"advint": ADV_INT}, b)
        total.evals += 1
        r = res["advint"]
        if not r["ok"]:
            if not r["errors"] and not r["artifact"]:
                total.inconclusive.append("adversarial compile gave no verdict (%s)" % b)
            else:
                msg = (r["errors"][0]["message"] if r["errors"] else "?")[:160]
                sig = {"backend": b, "kind": "adversarial_int_literal_above_i32", "class": {"kind": "adversarial_int_literal_above_i32", "backend": b}}
                total.violation(sig, "C11 adversarial: %s: a definition with the integer scale literal 3000000000 does not compile: %s" % (b, msg),
                                {"module": "c11", "backend": b, "kind": "program", "source": ADV_INT})
        total.cell(b, "adversarial", "int_literal_above_i32")
        pl.cleanup(cdir)
    # (2) Decimal: scales that differ only beyond the resolution of f64, declared in descending order
    d = {"name": "AdvClose", "derived": None, "doc": None, "ref": {"ident": "Base", "symbol": "b", "prefix": None, "doc": None},
         "units": [{"ident": "Close_Hi", "symbol": "ch", "prefix": None, "scale": "0.100000000000000002", "doc": None},
                   {"ident": "Close_Lo", "symbol": "cl", "prefix": None, "scale": "0.100000000000000001", "doc": None}],
         "attrs": ["R", 0, 1]}
    binp, diags, cdir = pl.build_executor("c11advclose", [{"name": "adv", "defs": [(d, None)]}], "dec")
    total.evals += 1
    if binp is None:
        total.inconclusive.append("adversarial close-scale definition does not build: %s" % diags[:1])
    else:
        reg = registry.load("dec", {"x_core": binp})
        ent = reg["adv::AdvClose"]
        sc = [u["scale"] for u in ent["units"]]
        if sc != sorted(sc):
            sig = {"backend": "dec", "kind": "adversarial_order_beyond_f64_resolution", "class": {"kind": "adversarial_order_beyond_f64_resolution", "backend": "dec"}}
            total.violation(sig, "C11 adversarial: dec: units with scales 0.100000000000000002 / 0.100000000000000001 (declared in this order) iterate as %s - not in non-decreasing scale order" % [u["dbg"] for u in ent["units"]],
                            {"module": "c11", "backend": "dec", "kind": "generated", "crate": cdir})
        total.cell("dec", "adversarial", "order_beyond_f64_resolution")
        pl.cleanup(cdir)


def exponent_literals(total):
    """f64 only: scale literals in exponent notation (the form the astronomical crate uses; `Dec!` does not
    accept it, so this group is not compiled for Decimal). Includes exponents ending in 0."""
    units = [("Tiny_A", "ta", "1e-10"), ("Tiny_B", "tb", "2.5e-7"), ("Big_A", "ba", "1e10"), ("Big_B", "bb", "3.25e20"),
             ("Mid_A", "ma", "6.6845871222684464e-9"), ("Mid_B", "mb", "1.5e3"), ("Neg_Exp", "ne", "4e-30"), ("Pos_Exp", "pe", "7e+2")]
    d = {"name": "ExpLit", "derived": None, "doc": None, "ref": {"ident": "Exp_Ref", "symbol": "er", "prefix": None, "doc": None},
         "units": [{"ident": i, "symbol": sy, "prefix": None, "scale": lit, "doc": None} for (i, sy, lit) in units],
         "attrs": [3, 0, "R", 5, 1, 7, 2, 6, 4]}
    b = "f64"
    binp, diags, cdir = pl.build_executor("c11explit", [{"name": "expl", "defs": [(d, None)]}], b)
    total.evals += 1

    def viol(kind, key, text, case=None):
        sig = {"backend": b, "kind": kind, "type": key, "group": "exponent_literals", "class": {"kind": kind, "backend": b, "type": key, "group": "exponent_literals"}}
        total.violation(sig, "C11 %s: %s %s (exponent-notation literals): %s" % (kind, b, key, text), {"module": "c11", "backend": b, "kind": "generated", "crate": cdir})
    if binp is None and not diags:
        total.inconclusive.append("building the exponent-literal definition failed without a compiler diagnostic")
    elif binp is None:
        viol("does_not_compile", "expl::ExpLit", "definition with exponent-notation scale literals does not compile: %s" % (diags[:1],))
        return
    reg = registry.load(b, {"x_core": binp})
    ent = reg["expl::ExpLit"]
    c09.judge_registry(total, b, "expl::ExpLit", ent, decl=declared_for(d, d["attrs"]))
    judge_attrs(total, b, "expl::ExpLit", ent, d, d["attrs"], viol)
    sub = c01.work({"backend": b, "ty": "expl::ExpLit", "entry": ent, "bin": binp, "seed": 1, "n": 3})
    for v in sub.violations:
        v["text"] = "C11 [exponent-notation literals, C01 oracle] " + v["text"]
    total.merge(sub)
    total.cell(b, "exponent_literals", "registry")
    if not total.violations:
        pl.cleanup(cdir)


def replay(path):
    with open(path, encoding="utf-8") as f:
        data = json.load(f)
    print("C11 replay: the generated crate of the failing run is kept at %s; re-running the check with the same VERIF_SEED (%s) "
          "regenerates it deterministically." % (data["replay"].get("crate"), data.get("seed")))
    os.environ["VERIF_SEED"] = str(data.get("seed", 1))
    import time
    return main("quick", data.get("seed", 1), 2, time.time())
