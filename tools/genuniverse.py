"""A generated executor with random well-formed definitions, for the thorough tiers of C09 / C10 (and C06)."""
from concurrent.futures import ThreadPoolExecutor
import framework as fw
import registry
import proglane as pl
import defgen
import c11
from common import Rng


def build(seed, tag, n_groups, kinds=None, backends=("f64", "dec")):
    """Returns {backend: {"bin", "reg", "decl": {type key: (has_ref, entries)}, "cdir"}}; kinds restricts
    basic definitions to the given kinds ('ref' | 'noref' | 'single')."""
    rng = Rng("%s/genuniverse/%s" % (seed, tag))
    g = defgen.DefGen(rng, tag=tag)
    modules = []
    for i in range(n_groups):
        if kinds:
            d = g.definition(rng.choice(kinds))
            defs = [d]
        else:
            defs = c11.gen_group(g, i, rng)["defs"]
        modules.append({"name": "u%d" % i, "defs": [(d, None) for d in defs]})

    def one(b):
        binp, diags, cdir = pl.build_executor("univ-%s" % tag, modules, b)
        if binp is None:
            raise fw.Inconclusive("generated universe %s does not build (%s): %s" % (tag, b, diags[:1]))
        reg = registry.load(b, {"x_core": binp})
        decl = {}
        for m in modules:
            for d, attrs in m["defs"]:
                decl["%s::%s" % (m["name"], d["name"])] = c11.declared_for(d, d["attrs"])
        return b, {"bin": binp, "reg": reg, "decl": decl, "cdir": cdir}
    with ThreadPoolExecutor(len(backends)) as ex:
        return dict(ex.map(one, backends))
