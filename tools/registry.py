"""Observed registries of the executor's type universe (x_core 'dump')."""
from fractions import Fraction
import framework as fw
from common import frac_of


def load(backend, bins=None):
    """Returns {ty: {kind, units:[{dbg,name,symbol,prefix,scale,scale_enc,is_ref,idx,as_qty,disp}], unit_iter, ref_q, ref_u}}"""
    bins = bins or fw.build_bins(backend, ["x_core"])
    path = bins["x_core"]
    types = fw.run_exec(path, [{"op": "types"}])[0]
    reqs = [{"op": "dump", "ty": t["ty"]} for t in types["types"]]
    resps = fw.run_exec(path, reqs)
    reg = {}
    for t, r in zip(types["types"], resps):
        if "panic" in r:
            raise fw.Inconclusive("registry dump of %s panicked: %s" % (t["ty"], r["panic"]))
        units = []
        for i, u in enumerate(r["units"]):
            e = dict(u)
            e["idx"] = i
            if "scale" in u:
                e["scale_enc"] = u["scale"]
                e["scale"] = frac_of(u["scale"], backend) if _finite(u["scale"], backend) else None
            units.append(e)
        reg[t["ty"]] = {"kind": r["kind"], "declared_kind": t["kind"], "units": units, "unit_iter": r["unit_iter"],
                        "ref_q": r.get("ref_q"), "ref_u": r.get("ref_u"), "tyname": r.get("tyname")}
    reg["_meta"] = {"backend": backend, "one": types["one"], "zero": types["zero"]}
    return reg


def _finite(enc, backend):
    if backend == "f64":
        return (int(enc, 16) >> 52) & 0x7FF != 0x7FF
    return True


def ref_types(reg):
    return [t for t, e in reg.items() if not t.startswith("_") and e["kind"] == "ref"]


def scales(entry):
    return [u["scale"] for u in entry["units"]]
