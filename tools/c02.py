"""C02 - Cross-unit comparison is physically correct and order-independent."""
from fractions import Fraction
import framework as fw
import corelane as cl
import oracle as orc
import amounts as am
from common import Rng, frac_of, enc_exact, enc_round, f64_is_nan, f64_is_finite, bits_f64

PID = "C02"
BINS = ["x_core"]
RULE = ("every reference-unit type x ALL ordered unit pairs (exhaustive) x amount PAIRS of kinds: independent random, "
        "equal-by-construction (k*scale(v) in u vs k*scale(u) in v, exact), decimal-equal (the values a user types: 12 in vs 1 ft), "
        "neighbours of those (+-1,2 ulp / 1e-18, +-1e-9 relative), and signs/zeros/infinities/overflow-prone pairs (symmetry clauses only); "
        "one request returns == != < <= > >= partial_cmp for (a,b) AND (b,a); cell = (backend,type,u,v,pair kind); "
        "non-trivial = different units and magnitudes equal or within 1e-9 relative")
REV = {"lt": "gt", "gt": "lt", "eq": "eq", None: None}


def plan(env, tier, seed):
    n = 10 if tier == "quick" else 400
    tasks = cl.split_tasks(env, lambda ty, e: e["kind"] == "ref")
    for t in tasks:
        t.update({"n": n, "seed": seed})
    return tasks


def shortest_dec(fr, backend):
    """The decimal a user would type for a scale: f64 -> repr of the double; dec -> itself."""
    if backend == "f64":
        return Fraction(repr(float(fr)))
    return fr


def pairs_for(rng, b, ent, u, v, n):
    """Yields (x_enc, y_enc, kind)."""
    uu, vu = ent["units"][u], ent["units"][v]
    su, sv = uu["scale"], vu["scale"]
    smin, smax = cl.smin_smax(ent)
    out = []

    def ok(e, s):
        if e is None:
            return False
        x = frac_of(e, b)
        if b == "dec":
            return orc.in_box(x, s, smin)
        return orc.f64_safe(x * s / smin, x * s / smax)

    # (i) independent
    xs = cl.safe_amounts(rng, b, ent, u, max(2, n // 3))
    ys = cl.safe_amounts(rng, b, ent, v, max(2, n // 3))
    for (x, _), (y, _) in zip(xs, ys):
        out.append((x, y, "independent"))
    # (ii) equal by construction (exact) and decimal-equal
    ks = [Fraction(1), Fraction(2), Fraction(3), Fraction(1, 2), Fraction(5), Fraction(12), Fraction(7, 4), Fraction(10), Fraction(1, 8)]
    rng.shuffle(ks)
    eqs = []
    for k in ks[:max(2, n // 2)]:
        x = enc_exact(k * sv, b)
        y = enc_exact(k * su, b)
        if ok(x, su) and ok(y, sv):
            eqs.append((x, y, "equal_exact"))
        du, dv = shortest_dec(su, b), shortest_dec(sv, b)
        # x [u] == y [v] in decimal terms: x*du == y*dv; choose y = k, x = k*dv/du when short
        for (xf, yf) in ((k * dv / du, k), (k, k * du / dv)):
            if orc_short(xf) and orc_short(yf):
                x2, y2 = enc_round(xf, b), enc_round(yf, b)
                if ok(x2, su) and ok(y2, sv):
                    eqs.append((x2, y2, "equal_decimal"))
    out.extend(eqs)
    # (iii) neighbours
    for (x, y, kind) in eqs[:max(1, n // 3)]:
        for nb in am.neighbours(x, b, ks=(1, -1, 2, -2))[:(4 if n > 10 else 2)]:
            if ok(nb, su):
                out.append((nb, y, "neighbour_ulp"))
        for rel in (Fraction(1, 10 ** 9), Fraction(-1, 10 ** 9)):
            p = am.rel_perturb(y, b, rel)
            if ok(p, sv) and p != y:
                out.append((x, p, "neighbour_1e-9"))
    # (iv) symmetry-only specials
    if b == "f64":
        sp = ["0000000000000000", "8000000000000000", "7ff0000000000000", "fff0000000000000", "7fefffffffffffff",
              "0000000000000001", "0010000000000000", "7e37e43c8800759c", "7fd0000000000000", "3ff0000000000000", "bff0000000000000",
              "7ff8000000000000", "fff8000000000001"]
        for _ in range(max(2, n // 2)):
            out.append((rng.choice(sp), rng.choice(sp), "special"))
    else:
        z = "0:0"
        out.append((z, z, "special"))
        out.append((z, "0:5", "special"))
        one = cl.safe_amounts(rng, b, ent, u, 1, ["small_int"])
        if one:
            out.append((one[0][0], z, "special"))
    return out


def orc_short(fr):
    """<= 12 significant decimal digits and terminating."""
    fr = Fraction(fr)
    d = fr.denominator
    for p in (2, 5):
        while d % p == 0:
            d //= p
    if d != 1:
        return False
    n = abs(fr.numerator) * (10 ** 30) // fr.denominator
    s = str(n).rstrip("0")
    return len(s) <= 12


def work(task):
    part = fw.Part()
    b, ty, ent = task["backend"], task["ty"], task["entry"]
    rng = Rng("%s/C02/%s/%s" % (task["seed"], b, ty))
    cases = []
    for (u, v) in cl.unit_pairs(ent):
        for (x, y, kind) in pairs_for(rng, b, ent, u, v, task["n"]):
            cases.append({"ty": ty, "u": u, "v": v, "x": x, "y": y, "kind": kind,
                          "reqs": [{"op": "cmp", "ty": ty, "x": x, "u": u, "y": y, "v": v}]})
    fw.run_cases(part, task["bin"], cases, judge, {"backend": b, "ty": ty, "entry": ent, "module": "c02"})
    return part


def exact_order(a, b):
    return "lt" if a < b else ("gt" if a > b else "eq")


def judge(part, case, resps, ctx):
    b, ty, ent = ctx["backend"], ctx["ty"], ctx["entry"]
    r = resps[0]
    u, v = case["u"], case["v"]
    uu, vu = ent["units"][u], ent["units"][v]
    su, sv = uu["scale"], vu["scale"]
    part.evals += 1

    def viol(kind, text):
        sig = {"backend": b, "type": ty, "u": uu["dbg"], "v": vu["dbg"], "kind": kind, "pair_kind": case["kind"],
               "class": {"kind": kind, "backend": b, "type": ty, "u": uu["dbg"], "v": vu["dbg"]}}
        part.violation(sig, "C02 %s: %s %s a=%s[%s] b=%s[%s] (%s): %s" % (kind, b, ty, case["x"], uu["dbg"], case["y"], vu["dbg"], case["kind"], text),
                       {"module": "c02", "backend": b, "ty": ty, "case": case, "resps": resps})

    ab, ba, nat = r["ab"], r["ba"], r["nat"]
    if "aa" in r:
        # a compared with itself through references to the same object: the amount type's own answers
        for k, val in r["aa"].items():
            if val != r["nat_aa"][k]:
                viol("self_cmp", "a %s a (the same object) is %s, the amount type's own answer is %s" % (k, val, r["nat_aa"][k]))
    if b == "f64" and (f64_is_nan(case["x"]) or f64_is_nan(case["y"])):
        # the statement speaks about NaN only through "reduce to the amount type's own comparison when the units are equal"
        if u != v:
            part.count("nan_cross_unit_not_judged")
            return
        part.count("nan_same_unit")
        unordered = {"eq": False, "ne": True, "lt": False, "le": False, "gt": False, "ge": False, "pc": None}
        for blk, nm, want in ((ab, "(a,b)", nat), (ba, "(b,a)", unordered)):
            for k in ("eq", "ne", "lt", "le", "gt", "ge", "pc"):
                if isinstance(blk[k], dict):
                    viol("panic", "%s.%s panicked: %s" % (nm, k, blk[k].get("panic")))
                elif blk[k] != want[k]:
                    viol("same_unit", "%s: %s is %s with a NaN amount, the amount type's own comparison gives %s" % (nm, k, blk[k], want[k]))
        part.cell(b, ty, uu["dbg"], vu["dbg"], "nan")
        return
    for blk, nm in ((ab, "ab"), (ba, "ba")):
        for k, val in blk.items():
            if isinstance(val, dict) and "panic" in val:
                viol("panic", "%s.%s panicked: %s" % (nm, k, val["panic"]))
                return
    # order independence
    if ab["eq"] != ba["eq"]:
        viol("eq_asym", "a==b is %s but b==a is %s" % (ab["eq"], ba["eq"]))
    if ab["lt"] != ba["gt"] or ab["gt"] != ba["lt"]:
        viol("lt_asym", "a<b %s / b>a %s ; a>b %s / b<a %s" % (ab["lt"], ba["gt"], ab["gt"], ba["lt"]))
    if ab["le"] != ba["ge"] or ab["ge"] != ba["le"]:
        viol("le_asym", "a<=b %s / b>=a %s ; a>=b %s / b<=a %s" % (ab["le"], ba["ge"], ab["ge"], ba["le"]))
    if ab["pc"] != REV[ba["pc"]]:
        viol("pc_asym", "partial_cmp(a,b)=%s but partial_cmp(b,a)=%s" % (ab["pc"], ba["pc"]))
    for blk, nm in ((ab, "(a,b)"), (ba, "(b,a)")):
        if (blk["pc"] == "eq") != blk["eq"]:
            viol("pc_eq", "%s: partial_cmp=%s but == is %s" % (nm, blk["pc"], blk["eq"]))
        if blk["ne"] != (not blk["eq"]):
            viol("ne", "%s: != is %s while == is %s" % (nm, blk["ne"], blk["eq"]))
        if blk["pc"] is None:
            viol("unordered", "%s: non-NaN values are unordered" % nm)
        exp = {"lt": blk["pc"] == "lt", "le": blk["pc"] in ("lt", "eq"), "gt": blk["pc"] == "gt", "ge": blk["pc"] in ("gt", "eq")}
        for k, e in exp.items():
            if blk[k] != e:
                viol("op_vs_pc", "%s: %s is %s but partial_cmp=%s" % (nm, k, blk[k], blk["pc"]))
    # same unit => the amount type's own comparison
    if u == v:
        part.count("same_unit")
        for k in ("eq", "ne", "lt", "le", "gt", "ge", "pc"):
            if ab[k] != nat[k]:
                viol("same_unit", "%s differs from the amount type's own comparison (%s vs %s)" % (k, ab[k], nat[k]))
    # physical clause
    if orc.finite(case["x"], b) and orc.finite(case["y"], b) and case["kind"] != "special":
        x, y = frac_of(case["x"], b), frac_of(case["y"], b)
        ma, mb = x * su, y * sv
        if b == "f64":
            thr = max(abs(ma), abs(mb)) * orc.F64_REL
        else:
            e = max(su * (abs(y) + 1) * orc.H, sv * (abs(x) + 1) * orc.H, 2 * orc.H, orc.H + su * orc.H, orc.H + sv * orc.H)
            thr = orc.dec_tol(e)
        diff = abs(ma - mb)
        if diff > thr:
            want = exact_order(ma, mb)
            part.count("ordered_pairs")
            if ab["pc"] != want:
                viol("order", "magnitudes %s vs %s differ by %.3g (> tolerance %.3g) so exact order is %s, reported %s" % (
                    float(ma), float(mb), float(diff), float(thr), want, ab["pc"]))
        else:
            part.count("within_rounding")
        if u != v and diff <= max(abs(ma), abs(mb)) * Fraction(1, 10 ** 9):
            part.cell(b, ty, uu["dbg"], vu["dbg"], case["kind"])
    if case["kind"] in ("equal_decimal", "neighbour_ulp") and u != v:
        part.sample({"backend": b, "type": ty, "request": case["reqs"][0], "response": {"ab": ab, "ba": ba},
                     "expectation": "answers independent of operand order; exact order when magnitudes differ beyond rounding"}, limit=2)
