#!/usr/bin/env python3
"""Confirm (in the scratch worktree) and evaluate a batch of seeded changes.
usage: tools/seed_batch.py <entries.json>   entries: [{sid, prop, wt, x, checks, needs, tier}]"""
import sys, json, subprocess, os, re
V = os.path.dirname(os.path.dirname(os.path.abspath(__file__)))
ents = json.load(open(sys.argv[1]))
for e in ents:
    c = subprocess.run([os.path.join(V, "tools/confirm_mutation.sh"), e["wt"], e["x"]] + e.get("demo_features", []), capture_output=True, text=True)
    lines = [l for l in c.stdout.splitlines() if l.startswith(("BUILD", "PINNED", "DEMO"))]
    txt = " || ".join(l[:300] for l in lines)
    pinned_ok = "77 passed 1 failed" in c.stdout
    with_fail = "FAILED" in (next((l for l in lines if l.startswith("DEMO with")), "")) or "error" in (next((l for l in lines if l.startswith("DEMO with")), ""))
    without_ok = "FAILED" not in (next((l for l in lines if l.startswith("DEMO clean")), "FAILED")) and "ok." in (next((l for l in lines if l.startswith("DEMO clean")), ""))
    print("CONFIRM %s pinned_ok=%s demo_fails_with=%s demo_passes_without=%s" % (e["sid"], pinned_ok, with_fail, without_ok), flush=True)
    if not (pinned_ok and with_fail and without_ok):
        print("   NOT CONFIRMED: " + txt[:900], flush=True)
        continue
    cmd = [os.path.join(V, "tools/seed_eval.py"), e["sid"], e["prop"], "--from", os.path.join(e["wt"], "MUTATION_" + e["x"]),
           "--confirm", "tools/confirm_mutation.sh in the scratch worktree: " + txt, "--needs", e.get("needs", ""), "--tier", e.get("tier", "quick")]
    if e.get("checks"):
        cmd += ["--checks", e["checks"]]
    r = subprocess.run(cmd, capture_output=True, text=True)
    print(r.stdout.strip(), flush=True)
    if r.returncode:
        print(r.stderr[-400:], flush=True)
