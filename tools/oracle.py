"""Numeric oracle: exact references, error models, tolerance policy (DESIGN.md 2.7)."""
from fractions import Fraction
from common import frac_of, f64_is_finite, f64_is_nan

H = Fraction(1, 2 * 10 ** 18)          # half a unit in the 18th fractional digit
E18 = Fraction(1, 10 ** 18)
F64_REL = Fraction(1, 2 ** 48)         # 32 half-ulps
BOX_LO = Fraction(1, 10 ** 15)
BOX_HI = Fraction(10 ** 17)
F64_SAFE_LO = Fraction(1, 10 ** 290)
F64_SAFE_HI = Fraction(10 ** 290)


def finite(enc, backend):
    return backend == "dec" or f64_is_finite(enc)


def same_bits(a, b, backend):
    """Bit identity; any NaN is identical to any NaN (payload propagation is order dependent)."""
    if a == b:
        return True
    if backend == "f64" and f64_is_nan(a) and f64_is_nan(b):
        return True
    return False


def in_box_value(m):
    m = abs(m)
    return m == 0 or (BOX_LO <= m <= BOX_HI)


def in_box(x, su, smin):
    """Decimal precondition of C18 for one operand: magnitude in reference units and in the
    smallest unit of its quantity inside [1e-15, 1e17] (or zero)."""
    m = abs(x) * su
    return in_box_value(m) and in_box_value(m / smin)


def f64_safe(*mags):
    for m in mags:
        m = abs(m)
        if m != 0 and not (F64_SAFE_LO <= m <= F64_SAFE_HI):
            return False
    return True


def dec_conv_bound(xabs, sf, st):
    """Absolute error bound (in target-amount units) of converting |x| from scale sf to st,
    for the evaluation orders (sf/st)*x and (x*sf)/st; before the safety factor."""
    return max(xabs * H + H, H / st + H)


def dec_tol(bound):
    return 4 * bound + 2 * E18


def check_close(got, want, tol):
    """Returns err/tol (>= 0); > 1 means out of tolerance. tol > 0."""
    err = abs(got - want)
    if tol == 0:
        return 0 if err == 0 else float("inf")
    return err / tol


def conv_tol(backend, x, su, sv):
    """Tolerance (absolute, in amount units of the target unit) for x[u] -> [v]."""
    want = x * su / sv
    if backend == "f64":
        return abs(want) * F64_REL
    return dec_tol(dec_conv_bound(abs(x), su, sv))


class Err:
    """Decimal error propagation: exact value v of the ideal computation and an absolute
    bound e on the deviation of a fixed-point evaluation that rounds every * and / to 18
    fractional digits (half-even)."""

    def __init__(self, v, e=0):
        self.v = Fraction(v)
        self.e = Fraction(e)

    def __mul__(self, o):
        o = o if isinstance(o, Err) else Err(o)
        return Err(self.v * o.v, abs(self.v) * o.e + abs(o.v) * self.e + self.e * o.e + H)

    def __truediv__(self, o):
        o = o if isinstance(o, Err) else Err(o)
        den = abs(o.v) - o.e
        if den <= 0:
            return Err(self.v / o.v if o.v else 0, Fraction(10) ** 40)
        return Err(self.v / o.v, (abs(self.v) * o.e / abs(o.v) + self.e) / den + H)

    def tol(self):
        return dec_tol(self.e)
