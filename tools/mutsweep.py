#!/usr/bin/env python3
"""Systematic mutation sweep of /repo's sources against the quick checks (machinery self-test).

  tools/mutsweep.py --list                       enumerate mutants
  tools/mutsweep.py --worker K --of N [--limit M] run shard K of N in its own worktree /tmp/mutrepo-K

Each mutant is a one-token change produced by simple operators (relational / arithmetic / boolean swaps,
operand swaps, constant and table-row tweaks). A mutant that still compiles in both back-ends and leaves the
pinned suite unchanged is run through every quick check with VERIF_REPO pointing at the worktree (so /repo,
the real evidence and the real caches are never touched). Survivors (no check fails) are listed for manual
analysis: equivalent mutant, outside every property, or a hole in the monitors.
Results: /verif/mutsweep/results-K.jsonl (one line per mutant)."""
import os, re, sys, json, subprocess, argparse, time, hashlib

VERIF = os.path.dirname(os.path.dirname(os.path.abspath(__file__)))
BASE = "/repo"
FILES = ["src/lib.rs", "src/rate.rs", "src/converter.rs", "src/si_prefixes.rs", "qty-macros/src/quantity_attr_helper.rs",
         "src/temperature.rs", "src/length.rs", "src/energy.rs", "src/datavolume.rs", "src/speed.rs", "src/volume.rs",
         "astronimical_quantities/src/lib.rs", "Cargo.toml"]

OPS = [
    (r" <= ", " < "), (r" < ", " <= "), (r" >= ", " > "), (r" > ", " >= "), (r" == ", " != "), (r" != ", " == "),
    (r" \* ", " / "), (r" / ", " * "), (r" \+ ", " - "), (r" - ", " + "),
    (r" && ", " || "), (r" \|\| ", " && "),
    (r"\.is_some\(\)", ".is_none()"), (r"\.is_none\(\)", ".is_some()"),
    (r"\.last\(\)", ".next()"), (r"AMNT_ONE", "AMNT_ZERO"), (r"AMNT_ZERO", "AMNT_ONE"),
    (r"self\.unit\(\)", "rhs.unit()"), (r"rhs\.unit\(\)", "self.unit()"), (r"other\.unit\(\)", "self.unit()"),
    (r"self\.amount\(\)", "rhs.amount()"), (r"rhs\.amount\(\)", "self.amount()"), (r"other\.amount\(\)", "self.amount()"),
    (r"term_amount", "per_unit_multiple"), (r"per_unit_multiple", "term_amount"),
    (r"term_unit", "per_unit"), (r"Some\(unit\)", "None"),
    (r"\*self, \*rhs", "*rhs, *self"), (r"padding / 2", "padding / 3"),
    (r"Case::UpperCamel", "Case::Pascal"), (r"Case::UpperSnake", "Case::Constant"),
    (r"\.insert\(0, ", ".push("), (r"lhs_qty_ident,\n", "rhs_qty_ident,\n"),
]
TABLE_OPS = [
    (r"(\d)\.(\d*?)(\d)(\D)", None),       # handled specially: last digit +1 of a decimal literal
]
SKIP_LINE = re.compile(r"^\s*(//|///|#!\[|#\[(doc|warn|deny|allow)|\*)|assert|panic!|abort|const [A-Z_]+: &str|help =|\"[^\"]*(Use|expected|must)[^\"]*\"")


def enumerate_mutants():
    muts = []
    for rel in FILES:
        path = os.path.join(BASE, rel)
        if not os.path.exists(path):
            continue
        lines = open(path, encoding="utf-8").read().split("\n")
        in_tests = False
        for i, line in enumerate(lines):
            if "#[cfg(test)]" in line:
                in_tests = True
            if in_tests or SKIP_LINE.search(line):
                continue
            if rel == "Cargo.toml":
                m = re.match(r'^(\w+) = \[(.+)\]$', line)
                if m and m.group(1) not in ("default", "doc", "members", "keywords", "categories", "authors", "features"):
                    deps = [d.strip() for d in m.group(2).split(",")]
                    for k in range(len(deps)):
                        nd = deps[:k] + deps[k + 1:]
                        muts.append((rel, i, line, "%s = [%s]" % (m.group(1), ", ".join(nd)), "drop_feature_edge"))
                continue
            for pat, rep in OPS:
                for m in re.finditer(pat, line):
                    new = line[:m.start()] + rep + line[m.end():]
                    if new != line:
                        muts.append((rel, i, line, new, "%s->%s" % (pat, rep)))
            # table rows: bump the last digit of a scale literal; swap prefix
            if re.search(r"#\[unit\(|^\s*\(\s*(KELVIN|DEGREE)|Amnt!\(", line):
                m = re.search(r"(\d+\.\d*?)(\d)(\D*\)?\]?,?\)?\s*,?)$", line)
                mm = list(re.finditer(r"\d+\.\d+", line))
                if mm:
                    lit = mm[-1]
                    t = lit.group(0)
                    d = str((int(t[-1]) + 1) % 10)
                    muts.append((rel, i, line, line[:lit.end() - 1] + d + line[lit.end():], "scale_last_digit"))
                for a, b_ in (("KILO", "MEGA"), ("MILLI", "MICRO"), ("NONE", "KILO"), ("NANO", "MICRO")):
                    if re.search(r"\b%s\b" % a, line):
                        muts.append((rel, i, line, re.sub(r"\b%s\b" % a, b_, line, count=1), "prefix_%s->%s" % (a, b_)))
            if rel == "src/si_prefixes.rs":
                m = re.search(r"=> Some\(Self::(\w+)\)", line)
                if m:
                    other = {"KILO": "MEGA", "MILLI": "MICRO", "DECA": "DECI", "ZETTA": "ZEPTO", "QUETTA": "QUECTO"}.get(m.group(1))
                    if other:
                        muts.append((rel, i, line, line.replace("Self::" + m.group(1), "Self::" + other), "si_arm_swap"))
                m = re.search(r'=> "(\w)"', line)
                if m and m.group(1) in "zZyYrRqQ":
                    muts.append((rel, i, line, line.replace('"%s"' % m.group(1), '"%s"' % m.group(1).swapcase()), "si_abbr_case"))
    # stable ids
    out = []
    seen = set()
    for (rel, i, old, new, op) in muts:
        key = hashlib.sha1(("%s|%d|%s" % (rel, i, new)).encode()).hexdigest()[:10]
        if key in seen:
            continue
        seen.add(key)
        out.append({"id": key, "file": rel, "line": i + 1, "old": old, "new": new, "op": op})
    return out


def sh(cmd, cwd=None, env=None, timeout=3600):
    try:
        return subprocess.run(cmd, shell=True, cwd=cwd, env=env, capture_output=True, text=True, timeout=timeout)
    except subprocess.TimeoutExpired:
        class R:
            returncode, stdout, stderr = 124, "", "timeout"
        return R()


def run_worker(k, n, limit, ncpu):
    wt = "/tmp/mutrepo-%d" % k
    if not os.path.exists(wt):
        sh("git -C %s worktree add -q --detach %s HEAD" % (BASE, wt))
    sh("git checkout -q -- .", cwd=wt)
    os.makedirs(os.path.join(VERIF, "mutsweep"), exist_ok=True)
    outp = os.path.join(VERIF, "mutsweep", "results-%d.jsonl" % k)
    done = set()
    if os.path.exists(outp):
        for l in open(outp):
            try:
                done.add(json.loads(l)["id"])
            except ValueError:
                pass
    muts = [m for idx, m in enumerate(enumerate_mutants()) if idx % n == k]
    if limit:
        muts = muts[:limit]
    env = dict(os.environ, CARGO_NET_OFFLINE="true", VERIF_REPO=wt, VERIF_NCPU=str(ncpu), CARGO_BUILD_JOBS=str(ncpu))
    checks = ["C%02d" % i for i in range(1, 20)]
    for m in muts:
        if m["id"] in done:
            continue
        t0 = time.time()
        path = os.path.join(wt, m["file"])
        lines = open(path, encoding="utf-8").read().split("\n")
        if lines[m["line"] - 1] != m["old"]:
            continue
        lines[m["line"] - 1] = m["new"]
        open(path, "w", encoding="utf-8").write("\n".join(lines))
        res = dict(m)
        try:
            b1 = sh("cargo build --offline --features doc,serde 2>&1 | tail -3", cwd=wt, env=env)
            b2 = sh("cargo build --offline --features doc,serde,fpdec 2>&1 | tail -3", cwd=wt, env=env)
            b3 = sh("cargo build --offline -p astronomical-quantities 2>&1 | tail -3", cwd=wt, env=env)
            if any("error" in b.stdout for b in (b1, b2, b3)) or any(b.returncode for b in (b1, b2, b3)):
                res["status"] = "does_not_compile"
            else:
                t = sh("cargo test --workspace --no-fail-fast --offline 2>&1 | grep -E '^test result' | awk '{p+=$4; f+=$6} END {print p\" \"f}'", cwd=wt, env=env)
                res["pinned"] = t.stdout.strip()
                if t.stdout.strip() != "77 1":
                    res["status"] = "killed_by_pinned_tests"
                else:
                    caught, incon = [], []
                    for c in checks:
                        p = sh("./check %s --tier quick" % c, cwd=VERIF, env=env, timeout=2400)
                        if p.returncode == 1:
                            kinds = re.findall(r"violation kinds: (.*)", p.stdout)
                            caught.append({"check": c, "kinds": (kinds[0] if kinds else "")[:200]})
                        elif p.returncode != 0:
                            incon.append({"check": c, "rc": p.returncode, "msg": (re.findall(r"INCONCLUSIVE.*", p.stdout) or [p.stderr[-200:]])[0][:200]})
                    res["caught"] = caught
                    res["inconclusive"] = incon
                    res["status"] = "caught" if caught else ("inconclusive" if incon else "SURVIVED")
        finally:
            sh("git checkout -q -- .", cwd=wt)
        res["wall_s"] = round(time.time() - t0, 1)
        with open(outp, "a") as f:
            f.write(json.dumps(res, ensure_ascii=False) + "\n")
        print("%s %s:%d [%s] -> %s %s" % (m["id"], m["file"], m["line"], m["op"], res["status"],
                                          ",".join(c["check"] for c in res.get("caught", []))), flush=True)


def main():
    ap = argparse.ArgumentParser()
    ap.add_argument("--list", action="store_true")
    ap.add_argument("--worker", type=int)
    ap.add_argument("--of", type=int, default=1)
    ap.add_argument("--limit", type=int, default=0)
    ap.add_argument("--ncpu", type=int, default=5)
    a = ap.parse_args()
    if a.list:
        ms = enumerate_mutants()
        for m in ms:
            print("%s %s:%d [%s]\n    - %s\n    + %s" % (m["id"], m["file"], m["line"], m["op"], m["old"].strip()[:110], m["new"].strip()[:110]))
        print(len(ms), "mutants")
        return
    run_worker(a.worker, a.of, a.limit, a.ncpu)


if __name__ == "__main__":
    main()
