#!/usr/bin/env python3
"""Regenerates the table of seeded changes in DESIGN.md section 10 from seeded/*/meta.json."""
import os, json, re
V = os.path.dirname(os.path.dirname(os.path.abspath(__file__)))
rows = []
for d in sorted(os.listdir(os.path.join(V, "seeded"))):
    mp = os.path.join(V, "seeded", d, "meta.json")
    if d.startswith("_") or not os.path.exists(mp):
        continue
    m = json.load(open(mp))
    by = {}
    for c in m.get("caught_by", []):
        chk, tier = c.split(":")
        by.setdefault(chk, set()).add(tier)
    txt = ", ".join(chk if "quick" in ts else chk + " (thorough)" for chk, ts in sorted(by.items())) or "NOT CAUGHT"
    rows.append("| %s | %s | %s | %s |" % (d, m.get("breaks_property"), (m.get("needs_to_manifest") or "").replace("|", "/"), txt))
p = os.path.join(V, "DESIGN.md")
s = open(p, encoding="utf-8").read()
head = "| id | property | needs to manifest | caught by (quick tier unless noted) |\n|---|---|---|---|\n"
i = s.index(head) + len(head)
j = s.index("\n\n", i)
s = s[:i] + "\n".join(rows) + s[j:]
open(p, "w", encoding="utf-8").write(s)
print(len(rows), "rows;", sum(1 for r in rows if "NOT CAUGHT" in r), "not caught;",
      sum(1 for r in rows if not re.search(r"\| (C\d\d) \| [^|]* \| [^|]*\b\1\b(?! \(thorough\))", r)), "not caught by the quick check of their own property")
