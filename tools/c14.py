"""C14 - Table-driven conversions apply the declared affine map."""
from fractions import Fraction
import framework as fw
import corelane as cl
import oracle as orc
import amounts as am
from common import Rng, frac_of, enc_round, enc_exact, load_table

PID = "C14"
BINS = ["x_core", "x_conv"]
RULE = ("random ConversionTable<Q,N> (N in 0,1,2,3,4,6,8,12; duplicate (from,to) entries with different coefficients, missing pairs, "
        "identity entries, coefficients incl. exactly 0, 1, -1, +-2^+-1, +-10^+-1) over SynFive, SynTwo, Temperature and two reference-unit types x every ordered unit pair x amounts: same unit -> "
        "unchanged, else bit-equal to the amount type's own x*f+o of the FIRST matching entry (f64: incl. NaN, +-inf and -0.0 amounts), else None; TEMPERATURE_CONVERTER x all 9 unit "
        "pairs x temperatures from absolute zero to 1e6 K incl. fixed points, against exact rational formulas, inverse and composition "
        "consistency over all 27 unit triples; cell = (backend,type or 'temp',u,v[,w],case kind); non-trivial = u != v")
TABLE_TYPES = ["SynFive", "SynTwo", "Temperature", "SynA", "Length"]
SIZES = [0, 1, 2, 3, 4, 6, 8, 12]


def plan(env, tier, seed):
    nt = 120 if tier == "quick" else 12000
    tasks = []
    for b, e in env.items():
        for ty in TABLE_TYPES:
            tasks.append({"backend": b, "kind": "table", "ty": ty, "entry": e["reg"][ty], "bin": e["bins"]["x_conv"], "n": nt, "seed": seed})
        tasks.append({"backend": b, "kind": "temp", "ty": "Temperature", "entry": e["reg"]["Temperature"], "bin": e["bins"]["x_conv"],
                      "n": 60 if tier == "quick" else 6000, "seed": seed})
    return tasks


def coef(rng, b):
    c = rng.choice(["int", "dec", "neg", "one", "zero", "frac", "unit_like"])
    if c == "unit_like":
        # coefficients a shortcut could mistake for "nothing to do": exactly -1, powers of two and ten, their negatives
        fr = Fraction(rng.choice([-1, -1, -1, 2, -2, 10, -10])) ** rng.choice([1, 1, -1])
    elif c == "int":
        fr = Fraction(rng.randint(1, 1000))
    elif c == "dec":
        fr = Fraction(rng.randint(1, 99999), 10 ** rng.randint(1, 4))
    elif c == "neg":
        fr = -Fraction(rng.randint(1, 99999), 10 ** rng.randint(0, 3))
    elif c == "one":
        fr = Fraction(1)
    elif c == "zero":
        fr = Fraction(0)
    else:
        fr = Fraction(rng.randint(1, 999), rng.choice([3, 7, 9, 11]))
    return enc_round(fr, b)


def work(task):
    if task["kind"] == "temp":
        return work_temp(task)
    part = fw.Part()
    b, ty, ent = task["backend"], task["ty"], task["entry"]
    rng = Rng("%s/C14/%s/%s" % (task["seed"], b, ty))
    nu = len(ent["units"])
    cases = []
    for _ in range(task["n"]):
        N = rng.choice(SIZES)
        table = []
        for i in range(N):
            if table and rng.random() < 0.3:
                f, t = table[rng.randint(0, len(table) - 1)][:2]      # duplicate pair, other coefficients
            elif rng.random() < 0.1:
                f = t = rng.randint(0, nu - 1)                           # identity entry
            else:
                f, t = rng.randint(0, nu - 1), rng.randint(0, nu - 1)
            table.append([f, t, coef(rng, b), coef(rng, b)])
        for (u, v) in cl.unit_pairs(ent):
            if nu > 6 and rng.random() < 0.8 and not any(e[0] == u and e[1] == v for e in table):
                continue
            x = rng.choice([am.short_decimal(rng, b), am.small_int(rng, b), enc_round(am.log_uniform(rng, -6, 9), b)])
            if b == "f64" and rng.random() < 0.06:
                # non-finite and signed-zero amounts take the same table entry as any other amount
                x = rng.choice(["7ff8000000000000", "7ff0000000000000", "fff0000000000000", "8000000000000000"])
            cases.append({"kind": "table", "ty": ty, "table": table, "u": u, "v": v, "x": x,
                          "reqs": [{"op": "table", "ty": ty, "table": table, "x": x, "u": u, "v": v}]})
    fw.run_cases(part, task["bin"], cases, judge, {"backend": b, "ty": ty, "entry": ent, "module": "c14"})
    return part


def temp_maps():
    t = load_table("temperature.json")
    return {(m["from"], m["to"]): (Fraction(m["factor"]), Fraction(m["offset"])) for m in t["maps"]}, t["units"]


def work_temp(task):
    part = fw.Part()
    b, ent = task["backend"], task["entry"]
    rng = Rng("%s/C14temp/%s" % (task["seed"], b))
    maps, _ = temp_maps()
    names = [u["dbg"] for u in ent["units"]]
    kidx = names.index("Kelvin") if "Kelvin" in names else 0
    # temperatures in kelvin, converted exactly to each start unit
    kelvins = [Fraction(0), Fraction("273.15"), Fraction("373.15"), Fraction("233.15"), Fraction("255.372222222222222222"),
               Fraction("310.15"), Fraction(1), Fraction(10 ** 6), Fraction("0.001"), Fraction("5778"), Fraction("1e-9") if False else Fraction(1, 10 ** 9)]
    for _ in range(task["n"]):
        kelvins.append(am.clip_dec(am.log_uniform(rng, -3, 6)))
    cases = []
    for k in kelvins:
        for u, un in enumerate(names):
            if un == "Kelvin":
                x = k
            elif ("Kelvin", un) in maps:
                f, o = maps[("Kelvin", un)]
                x = k * f + o
            else:
                continue
            xe = enc_round(am.clip_dec(x) if b == "dec" else x, b)
            for v in range(len(names)):
                for w in range(len(names)):
                    cases.append({"kind": "temp", "u": u, "v": v, "w": w, "x": xe,
                                  "reqs": [{"op": "temp", "x": xe, "u": u, "v": v, "w": w},
                                           {"op": "temp", "x": xe, "u": u, "v": w}]})
    fw.run_cases(part, task["bin"], cases, judge, {"backend": b, "ty": "Temperature", "entry": ent, "module": "c14"})
    return part


def affine_tol(b, x, f, o):
    if b == "f64":
        return (abs(x * f) + abs(o)) * orc.F64_REL
    return orc.dec_tol(abs(x) * orc.H + 2 * orc.H)


def judge(part, case, resps, ctx):
    b, ent = ctx["backend"], ctx["entry"]
    r = resps[0]
    part.evals += 1
    ty = case.get("ty", "Temperature")
    uu, vu = ent["units"][case["u"]], ent["units"][case["v"]]

    def viol(kind, text):
        sig = {"backend": b, "type": ty, "u": uu["dbg"], "v": vu["dbg"], "kind": kind, "class": {"kind": kind, "backend": b, "type": ty, "u": uu["dbg"], "v": vu["dbg"]}}
        part.violation(sig, "C14 %s: %s %s x=%s[%s] -> [%s]: %s" % (kind, b, ty, case["x"], uu["dbg"], vu["dbg"], text),
                       {"module": "c14", "backend": b, "bin": "x_conv", "ty": ty, "case": case, "resps": resps})
    if "panic" in r:
        viol("panic", "request panicked: %s" % r["panic"])
        return
    if case["kind"] == "table":
        res = r["r"]
        table = case["table"]
        if case["u"] == case["v"]:
            if res is None or res["u"] != uu["dbg"] or res["a"] != case["x"]:
                viol("same_unit", "conversion to the own unit returned %s (table %s)" % (res, table))
            part.count("same_unit")
            return
        idx = next((i for i, e in enumerate(table) if e[0] == case["u"] and e[1] == case["v"]), None)
        if idx is None:
            if res is not None:
                viol("no_entry", "no table entry for the pair but got %s (table %s)" % (res, table))
            part.cell(b, ty, uu["dbg"], vu["dbg"], "none")
            return
        nat = r["nat"][idx]
        if isinstance(nat, dict):
            part.count("native_panic")
            return
        if res is None:
            viol("missing", "entry %d matches but conversion returned None (table %s)" % (idx, table))
        elif res["u"] != vu["dbg"] or not orc.same_bits(res["a"], nat, b):
            others = [i for i, e in enumerate(table) if e[0] == case["u"] and e[1] == case["v"]]
            viol("affine", "got %s, first matching entry %d gives amount %s in %s (matching entries %s, table %s)" % (res, idx, nat, vu["dbg"], others, table))
        dup = sum(1 for e in table if e[0] == case["u"] and e[1] == case["v"]) > 1
        part.cell(b, ty, uu["dbg"], vu["dbg"], "dup" if dup else "single")
        part.sample({"backend": b, "type": ty, "request": case["reqs"][0], "response": r, "expectation": "first matching entry %d" % idx}, limit=1)
        return
    # predefined temperature table
    maps, _ = temp_maps()
    wu = ent["units"][case["w"]]
    x = frac_of(case["x"], b)
    res, res2 = r["r"], r["r2"]
    direct = resps[1]["r"]

    def exact(xv, a, c):
        if a == c:
            return xv, Fraction(1), Fraction(0)
        f, o = maps[(a, c)]
        return xv * f + o, f, o
    if res is None:
        viol("temp_missing", "the predefined table has no conversion for this pair")
        return
    if res["u"] != vu["dbg"]:
        viol("temp_unit", "result unit %s" % res["u"])
    if case["u"] == case["v"]:
        if res["a"] != case["x"]:
            viol("temp_same_unit", "same-unit conversion changed the amount to %s" % res["a"])
        t1 = Fraction(0)
        y = x
    else:
        y, f1, o1 = exact(x, uu["dbg"], vu["dbg"])
        t1 = affine_tol(b, x, f1, o1)
        got = frac_of(res["a"], b)
        ratio = orc.check_close(got, y, t1)
        part.ratio(ratio, {"backend": b, "temp": case["x"], "u": uu["dbg"], "v": vu["dbg"]})
        if ratio > 1:
            viol("temp_formula", "got %.17g, exact formula gives %.17g; err/tol=%.3g" % (float(got), float(y), float(ratio)))
    # second hop v -> w against the direct conversion u -> w (w == u: mutual inverse)
    if res2 is None or direct is None:
        viol("temp_missing", "second hop or direct conversion missing (%s, %s)" % (res2, direct))
        return
    if res2["u"] != wu["dbg"]:
        viol("temp_unit", "second hop unit %s" % res2["u"])
    z, f2, o2 = exact(y, vu["dbg"], wu["dbg"])
    yv = frac_of(res["a"], b)
    t2 = (affine_tol(b, yv, f2, o2) if case["v"] != case["w"] else 0) + t1 * abs(f2)
    zd, fd, od = exact(x, uu["dbg"], wu["dbg"])
    td = affine_tol(b, x, fd, od) if case["u"] != case["w"] else 0
    got2 = frac_of(res2["a"], b)
    gotd = frac_of(direct["a"], b)
    tol = t2 + td
    if tol == 0:
        if got2 != gotd:
            viol("temp_compose", "two-hop %s vs direct %s differ" % (res2["a"], direct["a"]))
    else:
        ratio = orc.check_close(got2, gotd, tol)
        part.ratio(ratio, {"backend": b, "temp": case["x"], "u": uu["dbg"], "v": vu["dbg"], "w": wu["dbg"]})
        if ratio > 1:
            kind = "temp_inverse" if case["w"] == case["u"] else "temp_compose"
            viol(kind, "via %s: %.17g, direct to %s: %.17g; err/tol=%.3g" % (vu["dbg"], float(got2), wu["dbg"], float(gotd), float(ratio)))
    if case["u"] != case["v"]:
        part.cell(b, "temp", uu["dbg"], vu["dbg"], wu["dbg"])
        part.sample({"backend": b, "request": case["reqs"][0], "response": r, "expectation": "%.17g %s" % (float(y), vu["dbg"])}, limit=1)
