"""C13 - Rates relate two quantities consistently."""
from fractions import Fraction
import framework as fw
import corelane as cl
import oracle as orc
import amounts as am
from common import Rng, frac_of, enc_round

PID = "C13"
BINS = ["x_core", "x_rate"]
TYPES = ["AmountT", "Mass", "Length", "Duration", "DataVolume", "Temperature", "SynA", "SynOne", "SynX"]
RULE = ("all 81 ordered pairs (term quantity, per quantity) over {AmountT, Mass, Length, Duration, DataVolume, SynA (synthetic), SynX (synthetic, SI prefixes that do not mirror the scales), "
        "SynOne (single unit), Temperature (equal units only)} x term/per/operand units (quick: each unit appears; thorough: all triples) x "
        "amounts with per-multiples that are not powers of ten, both constructors; accessors bit-exact, reciprocal swap and involution, "
        "rate*q, q*rate, t/rate, reciprocal*t, (rate*q)/rate against exact rationals; operator existence probed by trait resolution and "
        "reported at run time; cell = (backend,TQ,PQ,tu,pu,qu); non-trivial = operand unit != per unit or per-multiple != 1")
# forms that the crate does not offer for the dimensionless amount type as LEFT operand (not macro-generated)
MULTS = ["3", "7", "0.3", "12.5", "100", "1", "2.54", "60", "0.001", "1000", "29.2"]


def prepare(backends):
    return cl.prepare(backends, BINS)


def plan(env, tier, seed):
    tasks = []
    for b, e in env.items():
        for tq in TYPES:
            for pq in TYPES:
                tasks.append({"backend": b, "tq": tq, "pq": pq, "tent": e["reg"][tq], "pent": e["reg"][pq],
                              "bin": e["bins"]["x_rate"], "tier": tier, "seed": seed})
    return tasks


def amount_for(rng, b, ent, uidx):
    if ent["kind"] == "ref":
        r = cl.safe_amounts(rng, b, ent, uidx, 1, ["short_dec", "small_int", "safe_random"])
        if r:
            return r[0][0]
    return am.short_decimal(rng, b)


def nonzero(rng, b, texts=MULTS):
    return enc_round(am._to_frac(rng.choice(texts)) * rng.choice([1, 1, 1, -1]), b)


def work(task):
    part = fw.Part()
    b, tq, pq = task["backend"], task["tq"], task["pq"]
    tent, pent = task["tent"], task["pent"]
    rng = Rng("%s/C13/%s/%s/%s" % (task["seed"], b, tq, pq))
    nt, npu = len(tent["units"]), len(pent["units"])
    triples = []
    if task["tier"] == "thorough":
        for tu in range(nt):
            for pu in range(npu):
                for qu in range(npu):
                    triples.append((tu, pu, qu, rng.randint(0, nt - 1)))
        reps = 8
    else:
        k = max(nt, npu)
        for i in range(k * 2):
            triples.append((rng.randint(0, nt - 1) if i >= nt else i, rng.randint(0, npu - 1) if i >= npu else i,
                            rng.randint(0, npu - 1), rng.randint(0, nt - 1)))
        reps = 2
    cases = []
    for (tu, pu, qu, tqu) in triples:
        if pent["kind"] != "ref":
            qu = pu                     # mixed units of a type without reference unit panic by design (C10)
        if tent["kind"] != "ref":
            tqu = tu
        for _ in range(reps):
            ta, pm = nonzero(rng, b), nonzero(rng, b)
            if rng.random() < 0.08:
                ta = enc_round(Fraction(0), b)          # "0 km per 2 h": legal for rate * value, a zero divisor for value / rate
            q = amount_for(rng, b, pent, qu)
            t = amount_for(rng, b, tent, tqu)
            fv = rng.random() < 0.5
            base = {"tq": tq, "pq": pq, "ta": ta, "tu": tu, "pm": pm, "pu": pu}
            spec = {"fill": 0, "align": 0}
            cases.append({"tq": tq, "pq": pq, "ta": ta, "tu": tu, "pm": pm, "pu": pu, "q": q, "qu": qu, "t": t, "tqu": tqu, "from_vals": fv,
                          "reqs": [dict(base, op="rate", from_vals=fv, **spec),
                                   dict(base, op="apply", from_vals=fv, q=q, qu=qu, t=t, tqu=tqu)]})
    fw.run_cases(part, task["bin"], cases, judge, {"backend": b, "tent": tent, "pent": pent, "module": "c13"})
    return part


def scale_of(ent, idx):
    u = ent["units"][idx]
    return u["scale"] if ent["kind"] == "ref" else Fraction(1)


def judge(part, case, resps, ctx):
    b = ctx["backend"]
    tent = ctx.get("tent") or ctx["env"]["reg"][case["tq"]]
    pent = ctx.get("pent") or ctx["env"]["reg"][case["pq"]]
    tq, pq = case["tq"], case["pq"]
    r0, r1 = resps
    part.evals += 1
    tun, pun = tent["units"][case["tu"]]["dbg"], pent["units"][case["pu"]]["dbg"]

    def viol(kind, text):
        sig = {"backend": b, "tq": tq, "pq": pq, "kind": kind, "tu": tun, "pu": pun, "class": {"kind": kind, "backend": b, "tq": tq, "pq": pq}}
        part.violation(sig, "C13 %s: %s Rate<%s,%s>(%s %s per %s %s) q=%s[%s] t=%s[%s]: %s" % (
            kind, b, tq, pq, case["ta"], tun, case["pm"], pun, case["q"], pent["units"][case["qu"]]["dbg"], case["t"], tent["units"][case["tqu"]]["dbg"], text),
            {"module": "c13", "backend": b, "bin": "x_rate", "case": case, "resps": resps})
    for r in (r0, r1):
        if "panic" in r:
            viol("panic", "request panicked: %s" % r["panic"])
            return
    want = {"ta": case["ta"], "tu": tun, "pm": case["pm"], "pu": pun}
    if r0["acc"] != want:
        viol("accessors", "accessors report %s, constructed with %s" % (r0["acc"], want))
    swapped = {"ta": case["pm"], "tu": pun, "pm": case["ta"], "pu": tun}
    if r0["rec"] != swapped:
        viol("reciprocal", "reciprocal reports %s, expected %s" % (r0["rec"], swapped))
    if r0["rec2"] != want:
        viol("reciprocal_twice", "reciprocal applied twice reports %s" % (r0["rec2"],))
    ta, pm = frac_of(case["ta"], b), frac_of(case["pm"], b)
    qa, tamt = frac_of(case["q"], b), frac_of(case["t"], b)
    s_tu, s_pu = scale_of(tent, case["tu"]), scale_of(pent, case["pu"])
    s_qu, s_tqu = scale_of(pent, case["qu"]), scale_of(tent, case["tqu"])
    offered_qr = pq != "AmountT"
    offered_tdr = tq != "AmountT"

    def tol_for(num_amt, s_num, den_amt, s_den, mult):
        """result = mult * (num_amt*s_num) / (den_amt*s_den)"""
        exact = mult * num_amt * s_num / (den_amt * s_den)
        if b == "f64":
            return exact, abs(exact) * orc.F64_REL
        E = orc.Err
        r = E(s_den) / E(s_num) if s_den != s_num else E(1)          # 1[den unit] in num unit
        # every straightforward evaluation order of mult * num / (r * den)
        o1 = ((E(num_amt) / r) / E(den_amt)) * E(mult)
        o2 = (E(num_amt) * E(s_num) * E(mult)) / (E(den_amt) * E(s_den))
        o3 = ((E(num_amt) / r) * E(mult)) / E(den_amt)
        o4 = (E(num_amt) * E(mult)) / (r * E(den_amt))
        o5 = (E(num_amt) / (r * E(den_amt))) * E(mult)
        return exact, max(o.tol() for o in (o1, o2, o3, o4, o5))
    # rate * q and q * rate
    exp_rq, tol_rq = tol_for(qa, s_qu, pm, s_pu, ta)
    rq_in_range = b != "dec" or (orc.in_box_value(exp_rq) and orc.in_box_value(qa * s_qu / s_pu) and orc.in_box_value(qa * s_qu / s_pu / pm))
    for form, offered in (("rq", True), ("qr", offered_qr)):
        res = r1[form]
        if not rq_in_range:
            part.count("result_outside_decimal_range")
            continue
        if res is None:
            if offered:
                viol("missing_op", "operator form %s does not exist" % form)
            else:
                part.count("form_not_offered_for_AmountT")
            continue
        if not offered:
            part.count("unexpected_extra_form")
        if "panic" in res:
            viol("panic", "%s panicked: %s" % (form, res["panic"]))
            continue
        if res["u"] != tun:
            viol("unit_" + form, "result unit %s, expected the term unit %s" % (res["u"], tun))
        ratio = orc.check_close(frac_of(res["a"], b), exp_rq, tol_rq)
        part.ratio(ratio, {"backend": b, "form": form, "case": {k: case[k] for k in ("tq", "pq", "ta", "tu", "pm", "pu", "q", "qu")}})
        if ratio > 1:
            viol("value_" + form, "%s = %s, expected term amount x (value / per value) = %.17g; err/tol=%.3g" % (form, res["a"], float(exp_rq), float(ratio)))
    if rq_in_range and r1["rq"] and r1["qr"] and "a" in r1["rq"] and "a" in r1["qr"] and r1["rq"]["a"] != r1["qr"]["a"]:
        # both orders are the same computation up to rounding
        d = abs(frac_of(r1["rq"]["a"], b) - frac_of(r1["qr"]["a"], b))
        if d > 2 * tol_rq:
            viol("order", "rate*q = %s but q*rate = %s" % (r1["rq"]["a"], r1["qr"]["a"]))
    # t / rate and reciprocal * t
    exp_td, tol_td = tol_for(tamt, s_tqu, ta, s_tu, pm) if ta != 0 else (Fraction(0), Fraction(0))
    if ta == 0:
        part.count("zero_term_amount")
    td_in_range = ta != 0 and (b != "dec" or (orc.in_box_value(exp_td) and orc.in_box_value(tamt * s_tqu / s_tu) and orc.in_box_value(tamt * s_tqu / s_tu / ta)))
    for form, offered in (("tdr", offered_tdr), ("rect", True)):
        res = r1[form]
        if not td_in_range:
            part.count("result_outside_decimal_range")
            continue
        if res is None:
            if offered:
                viol("missing_op", "operator form %s does not exist" % form)
            else:
                part.count("form_not_offered_for_AmountT")
            continue
        if "panic" in res:
            viol("panic", "%s panicked: %s" % (form, res["panic"]))
            continue
        if res["u"] != pun:
            viol("unit_" + form, "result unit %s, expected the per unit %s" % (res["u"], pun))
        ratio = orc.check_close(frac_of(res["a"], b), exp_td, tol_td)
        part.ratio(ratio, {"backend": b, "form": form, "case": {k: case[k] for k in ("tq", "pq", "ta", "tu", "pm", "pu", "t", "tqu")}})
        if ratio > 1:
            viol("value_" + form, "%s = %s, expected per amount x (value / term value) = %.17g; err/tol=%.3g" % (form, res["a"], float(exp_td), float(ratio)))
    # (rate * q) / rate ~ q in the per unit
    back = r1["back"]
    if not rq_in_range or ta == 0:
        back = None
    if back is not None and offered_tdr and "a" in back:
        exact = qa * s_qu / s_pu
        if b == "f64":
            tol = abs(exact) * orc.F64_REL * 2
        else:
            # error of the first result (term-unit amount) carried through the division
            tol = tol_rq * abs(pm / ta) + tol_for(exp_rq, s_tu, ta, s_tu, pm)[1]
        if back["u"] != pun:
            viol("unit_back", "(rate*q)/rate has unit %s, expected %s" % (back["u"], pun))
        ratio = orc.check_close(frac_of(back["a"], b), exact, tol)
        part.ratio(ratio, {"backend": b, "form": "back"})
        if ratio > 1:
            viol("inverse", "(rate*q)/rate = %s, q expressed in the per unit is %.17g; err/tol=%.3g" % (back["a"], float(exact), float(ratio)))
    elif back is not None and "panic" in back:
        viol("panic", "(rate*q)/rate panicked: %s" % back["panic"])
    if case["qu"] != case["pu"] or pm != 1:
        part.cell(b, tq, pq, tun, pun, pent["units"][case["qu"]]["dbg"])
    part.sample({"backend": b, "requests": case["reqs"], "responses": [r0["acc"], {k: r1[k] for k in ("rq", "tdr")}],
                 "expectation": "rate*q = %.17g %s; t/rate = %.17g %s" % (float(exp_rq), tun, float(exp_td), pun)}, limit=1)
