"""Shared helpers: paths, seeded RNG, amount encoding <-> exact rationals."""
import os, struct, json, sys, time, hashlib, subprocess
from fractions import Fraction

VERIF = os.path.dirname(os.path.dirname(os.path.abspath(__file__)))
REPO = os.environ.get("VERIF_REPO", "/repo")
TABLES = os.path.join(VERIF, "tables")
NCPU = int(os.environ.get("VERIF_NCPU", "0")) or os.cpu_count() or 4
# The registered checks always work on /repo. For experiments (mutation sweeps) another checkout can be
# named with VERIF_REPO: everything derived from it (harness copy with the path dependency rewritten,
# cargo target dirs, generated crates, replay files, evidence) then lives under .work/alt-<tag>/ so that
# such runs never touch the evidence or caches of the real checks and can run concurrently.
ALT = os.path.abspath(REPO) != "/repo"
if not ALT:
    OUT = os.path.join(VERIF, "out")
    WORK = os.path.join(VERIF, ".work")
    HARNESS = os.path.join(VERIF, "harness", "qexec")
    EVIDENCE = os.path.join(VERIF, "evidence")
else:
    _tag = hashlib.sha1(os.path.abspath(REPO).encode()).hexdigest()[:8]
    WORK = os.path.join(VERIF, ".work", "alt-" + _tag)
    OUT = os.path.join(WORK, "out")
    EVIDENCE = os.path.join(WORK, "evidence")
    HARNESS = os.path.join(WORK, "harness", "qexec")


def ensure_alt_harness():
    """Copy of harness/qexec whose path dependencies point at VERIF_REPO (no-op for /repo)."""
    if not ALT:
        return
    import shutil
    src = os.path.join(VERIF, "harness", "qexec")
    os.makedirs(os.path.dirname(HARNESS), exist_ok=True)
    for root, dirs, files in os.walk(src):
        dirs[:] = [d for d in dirs if d != "target"]
        rel = os.path.relpath(root, src)
        os.makedirs(os.path.join(HARNESS, rel), exist_ok=True)
        for f in files:
            sp, dp = os.path.join(root, f), os.path.join(HARNESS, rel, f)
            data = open(sp, "rb").read()
            if f == "Cargo.toml":
                data = data.replace(b'path = "/repo/', ('path = "%s/' % os.path.abspath(REPO)).encode()).replace(
                    b'path = "/repo"', ('path = "%s"' % os.path.abspath(REPO)).encode())
            if not os.path.exists(dp) or open(dp, "rb").read() != data:
                with open(dp, "wb") as fh:
                    fh.write(data)

MASK = (1 << 64) - 1


class Rng:
    """SplitMix64: deterministic, seedable, forkable."""

    def __init__(self, seed):
        if isinstance(seed, str):
            seed = int.from_bytes(hashlib.sha256(seed.encode()).digest()[:8], "big")
        self.s = seed & MASK

    def next(self):
        self.s = (self.s + 0x9E3779B97F4A7C15) & MASK
        z = self.s
        z = ((z ^ (z >> 30)) * 0xBF58476D1CE4E5B9) & MASK
        z = ((z ^ (z >> 27)) * 0x94D049BB133111EB) & MASK
        return z ^ (z >> 31)

    def fork(self, label):
        h = hashlib.sha256(("%d/%s" % (self.s, label)).encode()).digest()
        return Rng(int.from_bytes(h[:8], "big"))

    def random(self):
        return (self.next() >> 11) / float(1 << 53)

    def randint(self, a, b):
        return a + self.next() % (b - a + 1)

    def choice(self, seq):
        return seq[self.next() % len(seq)]

    def shuffle(self, lst):
        for i in range(len(lst) - 1, 0, -1):
            j = self.next() % (i + 1)
            lst[i], lst[j] = lst[j], lst[i]

    def sample(self, seq, k):
        l = list(seq)
        self.shuffle(l)
        return l[:k]


def seed_from_env():
    try:
        return int(os.environ.get("VERIF_SEED", "1"))
    except ValueError:
        return 1


# ---------------------------------------------------------------------------
# amount encodings.  f64: 16 hex digits of the bit pattern.  dec: "coeff:nfrac".

def f64_bits(x):
    return "%016x" % struct.unpack(">Q", struct.pack(">d", x))[0]


def bits_f64(s):
    return struct.unpack(">d", struct.pack(">Q", int(s, 16)))[0]


def f64_is_nan(s):
    v = int(s, 16)
    return (v >> 52) & 0x7FF == 0x7FF and (v & ((1 << 52) - 1)) != 0


def f64_is_inf(s):
    v = int(s, 16)
    return (v >> 52) & 0x7FF == 0x7FF and (v & ((1 << 52) - 1)) == 0


def f64_is_finite(s):
    return (int(s, 16) >> 52) & 0x7FF != 0x7FF


def f64_neg(s):
    return int(s, 16) >> 63 == 1


def frac_of(enc, backend):
    """Exact rational value of an encoded finite amount."""
    if backend == "f64":
        return Fraction(bits_f64(enc))
    c, n = enc.split(":")
    return Fraction(int(c), 10 ** int(n))


def dec_enc(coeff, nfrac):
    return "%d:%d" % (coeff, nfrac)


def dec_from_fraction(fr, max_frac=18):
    """Encodes an exact Fraction as a Decimal if it has a terminating expansion with
    <= max_frac fractional digits; otherwise None. Uses the minimal number of digits."""
    fr = Fraction(fr)
    for n in range(0, max_frac + 1):
        v = fr * (10 ** n)
        if v.denominator == 1:
            if abs(v.numerator) >= (1 << 127):
                return None
            return dec_enc(v.numerator, n)
    return None


def f64_from_fraction_exact(fr):
    """Encodes fr as f64 iff exactly representable, else None."""
    try:
        x = float(fr)
    except OverflowError:
        return None
    if x != x or x in (float("inf"), float("-inf")):
        return None
    if Fraction(x) == fr:
        return f64_bits(x)
    return None


def enc_exact(fr, backend):
    return f64_from_fraction_exact(fr) if backend == "f64" else dec_from_fraction(fr)


def enc_round(fr, backend):
    """Nearest encoding of a rational (f64: correctly rounded; dec: 18 digits half-even)."""
    fr = Fraction(fr)
    if backend == "f64":
        return f64_bits(float(fr))
    e = dec_from_fraction(fr)
    if e is not None:
        return e
    v = fr * 10 ** 18
    q = v.numerator // v.denominator
    r = v - q
    if r > Fraction(1, 2) or (r == Fraction(1, 2) and q % 2 == 1):
        q += 1
    return dec_enc(q, 18)


def f64_next(s, k=1):
    """k ulps up (k may be negative) on the ordered-integer line of finite doubles."""
    v = int(s, 16)
    iv = v if v < (1 << 63) else -(v - (1 << 63))
    iv += k
    if iv >= 0:
        nv = iv
    else:
        nv = (-iv) + (1 << 63)
    return "%016x" % nv


def now():
    return time.time()


def load_table(name):
    with open(os.path.join(TABLES, name), encoding="utf-8") as f:
        return json.load(f)


def repo_fingerprint():
    try:
        head = subprocess.run(["git", "-C", REPO, "rev-parse", "HEAD"], capture_output=True, text=True).stdout.strip()
        diff = subprocess.run(["git", "-C", REPO, "diff", "HEAD"], capture_output=True).stdout
        st = subprocess.run(["git", "-C", REPO, "status", "--porcelain"], capture_output=True, text=True).stdout
        return {"head": head, "dirty": bool(st.strip()), "diff_sha": hashlib.sha256(diff).hexdigest()[:16] if diff else None}
    except Exception as e:  # pragma: no cover
        return {"error": str(e)}
