"""C05 - Derived results use the natural or the best-fitting unit."""
from fractions import Fraction
import framework as fw
import corelane as cl
import derivlane as dl
import oracle as orc
import amounts as am
from common import Rng, frac_of, enc_exact, enc_round

PID = "C05"
BINS = ["x_core", "x_derived"]
RULE = ("every operator instance of the declared derivations x ALL operand unit pairs (exhaustive) x amounts built so that the result "
        "magnitude lands exactly on, one ulp / 1e-18 beside, 1e-6 beside and midway between the unit scales of the result type, below the "
        "smallest, above the largest, zero and negative; plus direct _fit(m) calls for every reference-unit type on the same magnitudes. "
        "The unit is judged by SCALE and eligibility (ties never over-constrain); natural path: unit scale == native scale product/quotient "
        "and amount bits == native amount product/quotient; cell = (backend,instance,u,v,path,boundary kind); non-trivial = fit path taken")
EXHAUSTIVE = True


def prepare(backends):
    return dl.prepare(backends)


def plan(env, tier, seed):
    tasks = []
    for b, e in env.items():
        reg = e["reg"]
        for inst in dl.expected_instances(b):
            l, op, r, out = inst[:4]
            tasks.append({"backend": b, "inst": inst, "l": reg[l], "r": reg[r], "out": reg[out], "tier": tier, "seed": seed,
                          "bin": e["bins"]["x_derived"], "kind": "derived"})
        for ty, ent in reg.items():
            if not ty.startswith("_") and ent["kind"] == "ref" and ty != "AmountT":
                tasks.append({"backend": b, "ty": ty, "entry": ent, "tier": tier, "seed": seed, "bin": e["bins"]["x_core"], "kind": "fit"})
    return tasks


def boundary_targets(rng, b, oent, tier):
    """Target magnitudes (exact rationals) with a label."""
    el = sorted(set(u["scale"] for u in dl.eligible_units(oent)))
    alls = sorted(set(u["scale"] for u in oent["units"]))
    tg = []
    pick = el if tier == "thorough" else rng.sample(el, min(3, len(el)))
    for s in pick:
        tg.append((s, "on"))
        tg.append((s * (1 + Fraction(1, 10 ** 6)), "above_1e-6"))
        tg.append((s * (1 - Fraction(1, 10 ** 6)), "below_1e-6"))
        if tier == "thorough":
            tg.append((s * 3, "x3"))
            tg.append((s / 3, "third"))
    for i in range(len(el) - 1):
        if tier == "thorough" or rng.random() < 0.3:
            tg.append(((el[i] + el[i + 1]) / 2, "mid"))
    tg.append((el[0] / 7, "below_smallest"))
    tg.append((el[-1] * 9, "above_largest"))
    for s in alls:
        if s not in el and (tier == "thorough" or rng.random() < 0.3):
            tg.append((s, "on_ineligible"))
    tg.append((Fraction(0), "zero"))
    tg.append((-el[len(el) // 2], "negative"))
    return tg


def work(task):
    if task["kind"] == "fit":
        return work_fit(task)
    part = fw.Part()
    b = task["backend"]
    l, op, r, out = task["inst"][:4]
    lent, rent, oent = task["l"], task["r"], task["out"]
    rng = Rng("%s/C05/%s/%s%s%s" % (task["seed"], b, l, op, r))
    nat = dl.native_scales(task["bin"], b, lent, rent)
    cases = []
    lmin, _ = cl.smin_smax(lent)
    rmin, _ = cl.smin_smax(rent)
    for uu in lent["units"]:
        for vu in rent["units"]:
            u, v = uu["idx"], vu["idx"]
            su, sv = uu["scale"], vu["scale"]
            S = su * sv if op == "mul" else su / sv
            snat = nat[(u, v)][0 if op == "mul" else 1]
            for (M, label) in boundary_targets(rng, b, oent, task["tier"]):
                lbs = [Fraction(1)] + ([Fraction(4), Fraction(1, 2), Fraction(-1), Fraction(3), Fraction(1, 8)] if task["tier"] == "thorough" else [])
                for lbf in (lbs if task["tier"] == "thorough" else lbs[:1]):
                    laf = M / S / lbf if op == "mul" else M * lbf / S
                    x = enc_exact(laf, b)
                    exact = x is not None
                    if x is None:
                        x = enc_round(laf, b)
                    y = enc_exact(lbf, b)
                    fx, fy = frac_of(x, b), frac_of(y, b)
                    if not (dl.box_ok(b, fx, su, lmin) and dl.box_ok(b, fy, sv, rmin)):
                        continue
                    M2 = fx * su * fy * sv if op == "mul" else (fx * su) / (fy * sv)
                    if not dl.result_box_ok(b, M2, S, oent) or (b == "dec" and not dl.raw_ok(op, fx, fy)):
                        continue
                    base = {"inst": [l, op, r, out], "u": u, "v": v, "x": x, "y": y, "label": label, "snat": snat,
                            "reqs": [{"op": "bin", "l": l, "o": op, "r": r, "x": x, "u": u, "y": y, "v": v},
                                     {"op": "native", "x": x, "y": y}]}
                    cases.append(base)
                    if label == "on" and task["tier"] == "thorough":
                        for nb in am.neighbours(x, b, ks=(1, -1)):
                            c2 = dict(base, x=nb, label="on_neighbour")
                            c2["reqs"] = [{"op": "bin", "l": l, "o": op, "r": r, "x": nb, "u": u, "y": y, "v": v},
                                          {"op": "native", "x": nb, "y": y}]
                            cases.append(c2)
    fw.run_cases(part, task["bin"], cases, judge, {"backend": b, "ents": {l: lent, r: rent, out: oent}, "module": "c05"})
    return part


def judge(part, case, resps, ctx):
    if case.get("kind") == "fit":
        return judge_fit(part, case, resps, ctx)
    b = ctx["backend"]
    l, op, r, out = case["inst"]
    ents = ctx.get("ents")
    if ents is None:
        reg = ctx["env"]["reg"]
        ents = {k: reg[k] for k in (l, r, out)}
    lent, rent, oent = ents[l], ents[r], ents[out]
    uu, vu = lent["units"][case["u"]], rent["units"][case["v"]]
    su, sv = uu["scale"], vu["scale"]
    la, lb = frac_of(case["x"], b), frac_of(case["y"], b)
    resp, natr = resps[0], resps[1]
    part.evals += 1
    inst_name = "%s %s %s -> %s" % (l, "*" if op == "mul" else "/", r, out)

    def viol(kind, text, form=None):
        sig = {"backend": b, "instance": inst_name, "u": uu["dbg"], "v": vu["dbg"], "kind": kind, "form": form, "label": case["label"],
               "class": {"kind": kind, "backend": b, "instance": inst_name, "u": uu["dbg"], "v": vu["dbg"]}}
        part.violation(sig, "C05 %s: %s [%s] a=%s[%s] b=%s[%s] (%s): %s" % (kind, b, inst_name, case["x"], uu["dbg"], case["y"], vu["dbg"], case["label"], text),
                       {"module": "c05", "backend": b, "bin": "x_derived", "case": case, "resps": resps})

    if "panic" in resp:
        viol("panic", "request panicked: %s" % resp["panic"])
        return
    S = su * sv if op == "mul" else su / sv
    M = la * su * lb * sv if op == "mul" else (la * su) / (lb * sv)
    snat = case["snat"]
    nat_amt = natr["mul" if op == "mul" else "div"]
    by_name = {un["dbg"]: un for un in oent["units"]}
    natural_scale = None
    if snat is not None and orc.finite(snat, b):
        fs = frac_of(snat, b)
        if any(un["scale"] == fs for un in oent["units"]):
            natural_scale = fs
    for form in dl.FORMS:
        res = resp[form]
        if res is None:
            part.count("missing_form")        # C04 / C06 report this
            continue
        if "panic" in res:
            viol("panic", "`%s` panicked: %s" % (dl.FORM_TEXT[form], res["panic"]), form)
            continue
        if res["u"] not in by_name:
            viol("foreign_unit", "result unit %s is not a unit of %s" % (res["u"], out), form)
            continue
        ru = by_name[res["u"]]
        if uu.get("is_ref") and vu.get("is_ref") and not ru.get("is_ref"):
            viol("ref_units", "operands in reference units give a result in %s, not the reference unit" % res["u"], form)
        if natural_scale is not None:
            part.count("natural_path")
            if ru["scale"] != natural_scale:
                viol("natural_unit", "scale product/quotient %s is the scale of a unit of %s, but the result uses %s (scale %s)" % (
                    float(natural_scale), out, res["u"], float(ru["scale"])), form)
            elif isinstance(nat_amt, str) and not orc.same_bits(res["a"], nat_amt, b):
                viol("natural_amount", "natural unit: amount %s is not the amount type's own product/quotient %s" % (res["a"], nat_amt), form)
            part.cell(b, inst_name, uu["dbg"], vu["dbg"], "natural")
        else:
            part.count("fit_path")
            s_k = ru["scale"]
            window = dl.mag_tol(b, op, la, lb, S, M, s_k)
            # exactly-on-boundary results demand that boundary only if every intermediate is exact
            snat_exact = snat is not None and orc.finite(snat, b) and frac_of(snat, b) == S
            exact_chain = snat_exact and isinstance(nat_amt, str) and frac_of(nat_amt, b) == (la * lb if op == "mul" else la / lb)
            if exact_chain and enc_exact(M, b) is not None:
                acc = dl.expected_fit_scales(M, oent, None)
                part.count('fit_exact_chain')
                if case['label'] == 'on':
                    part.count('fit_exactly_on_boundary_demanded')
            else:
                acc = dl.expected_fit_scales(M, oent, window)
                # also accept what the rounded computation would see
                acc |= dl.expected_fit_scales(M, oent, None)
            if s_k not in acc:
                viol("fit_unit", "magnitude %.17g: result uses %s (scale %.17g), the fitting rule selects a unit of scale %s" % (
                    float(M), res["u"], float(s_k), sorted(float(a) for a in acc)), form)
            elig = [un["dbg"] for un in dl.eligible_units(oent)]
            if res["u"] not in elig:
                viol("fit_eligibility", "result unit %s is not eligible (SI-prefixed units only when the reference unit is SI-prefixed)" % res["u"], form)
            part.cell(b, inst_name, uu["dbg"], vu["dbg"], "fit", case["label"])
    if natural_scale is None:
        part.sample({"backend": b, "instance": inst_name, "request": case["reqs"][0], "response": {"oo": resp["oo"]},
                     "expectation": "fit path, magnitude %.17g (%s)" % (float(M), case["label"])}, limit=2)


def work_fit(task):
    part = fw.Part()
    b, ty, ent = task["backend"], task["ty"], task["entry"]
    rng = Rng("%s/C05fit/%s/%s" % (task["seed"], b, ty))
    smin, smax = cl.smin_smax(ent)
    cases = []
    ms = []
    for (M, label) in boundary_targets(rng, b, ent, "thorough"):
        e = enc_exact(M, b) or enc_round(M, b)
        ms.append((e, label))
        if label in ("on", "on_ineligible"):
            for nb in am.neighbours(e, b, ks=(1, -1)):
                ms.append((nb, label + "_neighbour"))
    n_rand = 10 if task["tier"] == "quick" else 3000
    for (e, c) in cl.safe_amounts(rng, b, ent, 0, n_rand, ["safe_random", "short_dec", "small_int", "scale_related"]):
        ms.append((e, "random:" + c))
    for (e, label) in ms:
        m = frac_of(e, b)
        if b == "dec" and not (orc.in_box_value(m) and orc.in_box_value(m / smin)):
            continue
        cases.append({"kind": "fit", "ty": ty, "x": e, "label": label, "reqs": [{"op": "fit", "ty": ty, "x": e}]})
    fw.run_cases(part, task["bin"], cases, judge, {"backend": b, "ty": ty, "entry": ent, "module": "c05"})
    return part


def judge_fit(part, case, resps, ctx):
    b = ctx["backend"]
    ty = case["ty"]
    ent = ctx.get("entry") or ctx["env"]["reg"][ty]
    r = resps[0]
    part.evals += 1
    m = frac_of(case["x"], b)

    def viol(kind, text):
        sig = {"backend": b, "type": ty, "kind": kind, "label": case["label"], "class": {"kind": kind, "backend": b, "type": ty, "label": case["label"].split(":")[0]}}
        part.violation(sig, "C05 %s: %s %s::_fit(%s) (%s): %s" % (kind, b, ty, case["x"], case["label"], text),
                       {"module": "c05", "backend": b, "bin": "x_core", "ty": ty, "case": case, "resps": resps})
    if "panic" in r:
        viol("panic", "_fit panicked: %s" % r["panic"])
        return
    by_name = {un["dbg"]: un for un in ent["units"]}
    res = r["r"]
    if res["u"] not in by_name:
        viol("foreign_unit", "unit %s" % res["u"])
        return
    ru = by_name[res["u"]]
    acc = dl.expected_fit_scales(m, ent, None)
    if ru["scale"] not in acc:
        viol("fit_unit", "amount %.17g in reference units: _fit chose %s (scale %.17g), rule selects scale %s" % (float(m), res["u"], float(ru["scale"]), sorted(float(a) for a in acc)))
    if res["u"] not in [un["dbg"] for un in dl.eligible_units(ent)]:
        viol("fit_eligibility", "_fit chose the non-eligible unit %s" % res["u"])
    got = frac_of(res["a"], b) * ru["scale"]
    tol = abs(m) * orc.F64_REL if b == "f64" else orc.dec_tol(orc.H * ru["scale"] + orc.H)
    ratio = orc.check_close(got, m, tol)
    part.ratio(ratio, {"backend": b, "type": ty, "fit": case["x"]})
    if ratio > 1:
        viol("fit_magnitude", "_fit result %s %s has magnitude %.17g, input %.17g" % (res["a"], res["u"], float(got), float(m)))
    part.cell(b, ty, "_fit", case["label"].split(":")[0], res["u"])
