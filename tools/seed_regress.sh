#!/bin/bash
# usage: tools/seed_regress.sh [workers]   -- re-runs the quick check of its own property against every kept seeded change
# (one scratch worktree /tmp/seedreg-<k> per worker); prints one line per seed, "MISSED" lines at the end.
cd "$(dirname "$0")/.."
W=${1:-5}
ls seeded | grep -v '^_' > /tmp/seedreg.list
run_one() {
  sid=$1
  prop=$(python3 -c "import json;print(json.load(open('seeded/$sid/meta.json'))['breaks_property'])")
  wt=/tmp/seedreg-$SLOT            # a fixed worktree (and so a fixed cache directory under .work/alt-*) per worker
  out=$(SEED_WT=$wt tools/seed_eval.py "$sid" "$prop" 2>&1 | tail -1)
  echo "$out" | cut -c1-200
}
export -f run_one
cat /tmp/seedreg.list | xargs -P $W --process-slot-var=SLOT -I{} bash -c 'run_one {}' > /tmp/seedreg.log 2>&1
for k in $(seq 0 $((W-1))); do git -C /repo worktree remove --force /tmp/seedreg-$k 2>/dev/null; done
rm -rf .work/alt-*
git -C /repo worktree prune
echo "== done: $(grep -c 'exit=1' /tmp/seedreg.log) caught, $(grep -vc 'exit=1' /tmp/seedreg.log) other"
grep -v 'exit=1' /tmp/seedreg.log
