"""Amount generators (DESIGN.md 2.6). All return encoded amounts for a back-end."""
from fractions import Fraction
import math
from common import (f64_bits, bits_f64, enc_exact, enc_round, dec_enc, f64_next, frac_of, dec_from_fraction)

SHORT_DECIMALS = ["1", "2", "3", "5", "7", "10", "12", "17.4", "0.5", "0.25", "1.5", "2.5", "0.1", "0.2", "0.3", "3.7",
                  "12.5", "21.5", "99.99", "100", "1000", "0.001", "0.75", "150", "1.2", "34.7", "0.0254", "1e6", "123.456"]

F64_SPECIALS = {
    "zero": "0000000000000000", "neg_zero": "8000000000000000",
    "min_sub": "0000000000000001", "max_sub": "000fffffffffffff", "min_pos": "0010000000000000",
    "max": "7fefffffffffffff", "neg_max": "ffefffffffffffff",
    "inf": "7ff0000000000000", "neg_inf": "fff0000000000000",
    "nan": "7ff8000000000000", "nan_payload": "7ff800000000beef", "neg_nan": "fff8000000000001", "snan": "7ff0000000000001",
    "one": "3ff0000000000000", "neg_one": "bff0000000000000", "eps": "3cb0000000000000",
}


def _to_frac(text):
    if "e" in text:
        m, e = text.split("e")
        return Fraction(m) * Fraction(10) ** int(e)
    return Fraction(text)


def sig_round(fr, digits):
    """Rounds a positive/negative rational to `digits` significant decimal digits (exact Fraction result)."""
    fr = Fraction(fr)
    if fr == 0:
        return fr
    e = math.floor(math.log10(abs(float(fr)))) if abs(fr) > Fraction(1, 10 ** 300) else -300
    q = Fraction(10) ** (e - digits + 1)
    n = round(fr / q)
    return n * q


def clip_dec(fr):
    """Rounds to <= 18 fractional digits (towards nearest)."""
    v = Fraction(fr) * 10 ** 18
    return Fraction(round(v), 10 ** 18)


def log_uniform(rng, lo_exp, hi_exp, digits=None):
    """Random positive rational m * 10^e, e uniform in [lo_exp, hi_exp)."""
    e = rng.randint(lo_exp * 100, hi_exp * 100 - 1) / 100.0
    digits = digits or rng.choice([1, 2, 3, 4, 6, 9, 12, 15])
    mant = rng.randint(10 ** (digits - 1), 10 ** digits - 1)
    ee = int(math.floor(e))
    return Fraction(mant, 10 ** (digits - 1)) * Fraction(10) ** ee


def safe_amount(rng, backend, su, smin, smax, allow_neg=True, digits=None):
    """A 'comfortable' finite amount for a unit of scale su in a type whose unit scales span
    [smin, smax]: the value expressed in ANY unit of the type stays well inside the range
    and resolution of the amount type.  Returns an encoding."""
    su = Fraction(su)
    if backend == "f64":
        x = log_uniform(rng, -9, 12, digits)
        if allow_neg and rng.random() < 0.3:
            x = -x
        return f64_bits(float(x))
    # decimal: magnitude in the smallest unit in [1e-6, 1e15], in the largest unit >= 1e-12 when possible
    span = Fraction(smax) / Fraction(smin)
    lo = -6
    hi = 15
    # prefer values whose representation in the largest unit still has >= 6 significant digits
    span_e = int(math.ceil(math.log10(float(span)))) if span > 1 else 0
    lo2 = min(hi - 1, max(lo, span_e - 12))
    m_small = log_uniform(rng, lo2, hi, digits)
    x = m_small * Fraction(smin) / su
    x = clip_dec(sig_round(x, digits or rng.choice([1, 2, 3, 4, 6, 9, 12])))
    if x == 0:
        x = Fraction(1)
    if allow_neg and rng.random() < 0.3:
        x = -x
    return dec_from_fraction(x)


def short_decimal(rng, backend):
    fr = _to_frac(rng.choice(SHORT_DECIMALS))
    if rng.random() < 0.25:
        fr = -fr
    return enc_round(fr, backend)


def small_int(rng, backend, lo=-20, hi=20):
    return enc_round(Fraction(rng.randint(lo, hi)), backend)


def neighbours(enc, backend, ks=(1, -1, 2, -2)):
    """Neighbouring representable values (f64: ulps; dec: units of 1e-18)."""
    out = []
    if backend == "f64":
        for k in ks:
            out.append(f64_next(enc, k))
    else:
        fr = frac_of(enc, backend)
        for k in ks:
            out.append(dec_from_fraction(fr + Fraction(k, 10 ** 18)))
    return [o for o in out if o is not None]


def rel_perturb(enc, backend, rel):
    fr = frac_of(enc, backend) * (1 + Fraction(rel))
    return enc_round(fr, backend)


def f64_random_bits(rng):
    return "%016x" % rng.next()


def f64_17digits(rng):
    mant = rng.randint(10 ** 16, 10 ** 17 - 1)
    e = rng.randint(-20, 20)
    return f64_bits(float(Fraction(mant) * Fraction(10) ** (e - 16)))


def dec_18frac(rng, int_digits=None):
    int_digits = rng.randint(0, 12) if int_digits is None else int_digits
    ip = rng.randint(0, 10 ** int_digits - 1) if int_digits else 0
    fp = rng.randint(1, 10 ** 18 - 1)
    c = ip * 10 ** 18 + fp
    if rng.random() < 0.3:
        c = -c
    return dec_enc(c, 18)


def is_zero(enc, backend):
    if backend == "f64":
        return int(enc, 16) & ~(1 << 63) == 0
    return int(enc.split(":")[0]) == 0
