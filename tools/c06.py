"""C06 - Dimensional type safety of quantity arithmetic."""
import os, json, re
from fractions import Fraction
import framework as fw
import corelane as cl
import derivlane as dl
from common import Rng, load_table

PID = "C06"
BINS = ["x_core", "x_derived"]
RULE = ("quick: the run-time trait-probe matrix (x_derived 'probes') over ALL ordered pairs of the 14 catalogue types + AmountT + 9 synthetic "
        "types (24x24) and the astro types incl. astro x main-crate pairs, operators + - * / == < with the Output type name and the borrowed "
        "forms, both back-ends, against an expectation computed from tables/derivations.json only (like-with-like, scalar, the declared "
        "instances, nothing else) plus dimension-vector consistency; thorough: additionally the 15x15x6 = 1350 catalogue cells as real "
        "single-expression programs compiled by rustc (batch attribution by line + a random sample as individual targets + result-type "
        "ascription), probe <=> compiler agreement on every cell, and randomly generated derivation graphs with their own probe matrix; "
        "cell = (backend,L,R,operator); non-trivial = cells where at least one side is a quantity type (all but AmountT x AmountT)")
EXHAUSTIVE = True
COLS = ["add", "sub", "mul", "div", "mul_ro", "mul_or", "mul_rr", "div_ro", "div_or", "div_rr"]
CATALOGUE15 = ["AmountT", "Mass", "Length", "Duration", "Area", "Volume", "Speed", "Acceleration", "Force", "Energy", "Power",
               "Frequency", "DataVolume", "DataThroughput", "Temperature"]


def expected_cell(L, R, kinds, inst):
    """Expectation for the ordered pair: dict col -> expected Output type (None = must not type-check,
    '?' = unconstrained); plus eq/ord (True, False, or None = unconstrained)."""
    exp = {c: None for c in COLS}
    exp["eq"] = False
    exp["ord"] = False
    if L == "AmountT" and R == "AmountT":
        return None
    la, ra = L == "AmountT", R == "AmountT"
    if L == R:
        exp["add"] = L
        exp["sub"] = L
        exp["div"] = "AmountT"
        if kinds[L] == "single":
            exp["eq"] = None
            exp["ord"] = None
        else:
            exp["eq"] = True
            exp["ord"] = True
    if ra and not la:
        exp["mul"] = L
        exp["div"] = L
    if la and not ra:
        exp["mul"] = R
    for (l, op, r, out) in inst:
        if l == L and r == R:
            base = op
            if exp[base] is not None and exp[base] != out:
                raise fw.Inconclusive("derivation table conflicts with the basic rules at %s %s %s" % (L, op, R))
            exp[base] = out
            for f in ("_ro", "_or", "_rr"):
                exp[base + f] = out
    return exp


def dims_ok(L, R, op, out, dims):
    dl_, dr, do = dims.get(L), dims.get(R), dims.get(out)
    if dl_ is None or dr is None or do is None:
        return None
    want = [a + b for a, b in zip(dl_, dr)] if op == "mul" else [a - b for a, b in zip(dl_, dr)]
    return want == do


def judge_matrix(part, b, rows, kinds, inst, dims, label="universe"):
    seen = set()
    for row in rows:
        L, R = dl.norm_type(row["l"]), dl.norm_type(row["r"])
        if (L, R) in seen:
            continue
        seen.add((L, R))
        exp = expected_cell(L, R, kinds, inst)
        if exp is None:
            continue
        obs = dict(zip(COLS, row["t"]))
        obs = {k: (dl.norm_type(v) if v else None) for k, v in obs.items()}
        obs["eq"], obs["ord"] = row["eq"], row["ord"]

        def viol(kind, op, text):
            sig = {"backend": b, "kind": kind, "L": L, "R": R, "op": op, "class": {"kind": kind, "backend": b, "L": L, "R": R, "op": op}}
            part.violation(sig, "C06 %s: %s `%s %s %s`: %s" % (kind, b, L, op, R, text),
                           {"module": "c06", "backend": b, "bin": "x_derived", "case": {"kind": "probes", "reqs": [{"op": "probes"}], "L": L, "R": R}})
        for col in COLS:
            part.evals += 1
            e, o = exp[col], obs[col]
            borrowed = col.endswith(("_ro", "_or", "_rr"))
            if e is None:
                if o is not None:
                    if borrowed and exp[col.split("_")[0]] is not None:
                        part.count("borrowed_form_of_licensed_cell")    # dimensionally fine, not demanded
                    else:
                        viol("unlicensed", col, "type-checks with Output %s but no like-with-like / scalar rule or declared derivation licenses it" % o)
            else:
                if o is None:
                    viol("missing", col, "licensed (Output %s) but does not type-check" % e)
                elif o != e:
                    viol("wrong_output", col, "has Output %s, declared result type is %s" % (o, e))
            if o is not None and col in ("mul", "div") and L != "AmountT" and R != "AmountT":
                ok = dims_ok(L, R, col, o, dims)
                if ok is False:
                    viol("dimension", col, "Output %s is dimensionally inconsistent" % o)
            part.cell(b, label, L, R, col)
        for col in ("eq", "ord"):
            part.evals += 1
            e, o = exp[col], obs[col]
            if e is not None and e != o:
                viol("unlicensed" if o else "missing", col, "comparison %s" % ("type-checks between different types" if o else "is missing between like quantities"))
            part.cell(b, label, L, R, col)
    return len(seen)


def universe_kinds(reg):
    return {t: e["kind"] for t, e in reg.items() if not t.startswith("_")}


def work_backend(b, env):
    part = fw.Part()
    e = env[b]
    rows = fw.run_exec(e["bins"]["x_derived"], [{"op": "probes"}])[0]["rows"]
    kinds = universe_kinds(e["reg"])
    kinds["AmountT"] = "ref"
    t = load_table("derivations.json")
    dims = dict(t["dimensions"])
    dims.update(t["astro_dimensions"])
    inst = [i[:4] for i in dl.expected_instances(b)]
    # the declared derivations themselves must be dimensionally consistent (table sanity)
    for (l, op, r, out) in inst:
        if dims_ok(l, r, op, out, dims) is False:
            raise fw.Inconclusive("tables/derivations.json is dimensionally inconsistent at %s %s %s -> %s" % (l, op, r, out))
    npairs = judge_matrix(part, b, rows, kinds, inst, dims)
    part.counters["ordered_pairs_%s" % b] = npairs
    lic = [r_ for r_ in rows if dl.norm_type(r_["l"]) == "Length" and dl.norm_type(r_["r"]) == "Duration"]
    part.sample({"backend": b, "probe_row": lic[0] if lic else rows[0], "columns": COLS,
                 "expectation": "Length / Duration -> Speed in all four operand forms; +, -, *, ==, < rejected"}, limit=1)
    return part


def main(tier, seed, nproc, t0):
    backends = ("f64", "dec")
    env = dl.prepare(backends)
    total = fw.Part()
    for b in backends:
        total.merge(work_backend(b, env))
    extra = {}
    if tier == "thorough":
        import c06_programs
        extra = c06_programs.run(total, env, seed, nproc)
    return fw.finish(PID, tier, seed, total, t0, RULE, exhaustive=True, extra=extra, min_evals=5000,
                     assumptions=["the verdicts are rustc's (stable 1.95): trait resolution while compiling the probe program / the generated programs",
                                  "expectation derived from tables/derivations.json and the like-with-like / scalar rules of the property statement"])


def replay(path):
    with open(path, encoding="utf-8") as f:
        data = json.load(f)
    rp = data["replay"]
    if rp.get("kind") == "build":
        print(json.dumps(rp)[:3000])
        return 1
    b = rp["backend"]
    env = dl.prepare([b])
    part = work_backend(b, env)
    c = rp["case"]
    hits = [v for v in part.violations if v["sig"]["L"] == c.get("L") and v["sig"]["R"] == c.get("R")]
    for v in hits:
        print("REPLAY still violates:", v["text"])
    if not hits:
        print("REPLAY: no violation reproduced")
    return 1 if hits else 0
