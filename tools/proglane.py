"""Program lane: generated crates (DESIGN.md 2.3).

 * generated executors: a crate whose main.rs holds generated `#[quantity]` definitions and
   instantiates the qexec handler / probe macros for them, so it speaks the same protocol as
   x_core / x_derived and is judged by the same oracles;
 * compile-verdict crates: one example target per program, verdicts from cargo's JSON diagnostics.
"""
import os, json, shutil, subprocess, hashlib, time
import framework as fw
import defgen
from common import WORK, REPO, HARNESS, VERIF

GEN_ROOT = os.path.join(WORK, "gen")


def _write(path, text):
    os.makedirs(os.path.dirname(path), exist_ok=True)
    with open(path, "w", encoding="utf-8") as f:
        f.write(text)


def crate_dir(name):
    return os.path.join(GEN_ROOT, name)


def cargo_toml(name, backend, qexec=True, features_extra="", opt=0):
    feats = '"std", "doc"'
    lines = ['[package]', 'name = "%s"' % name, 'version = "0.0.0"', 'edition = "2021"', 'publish = false', '', '[workspace]', '',
             '[dependencies]']
    qf = ['"std"', '"doc"', '"serde"'] + (['"fpdec"'] if backend == "dec" else [])
    lines.append('quantities = { path = "%s", default-features = false, features = [%s] }' % (REPO, ", ".join(qf)))
    if qexec:
        lines.append('qexec = { path = "%s"%s }' % (HARNESS, ', features = ["fpdec"]' if backend == "dec" else ""))
    lines += ['', '[profile.dev]', 'opt-level = %d' % opt, 'debug = 0', 'debug-assertions = true', 'overflow-checks = true', 'incremental = false',
              '', '[lints.rust]', 'unexpected_cfgs = "allow"', 'unused = "allow"', 'non_camel_case_types = "allow"']
    return "\n".join(lines) + "\n"


def target_for(backend, kind="gen"):
    return os.path.join(WORK, "target-%s-%s" % (kind, backend))


def ensure_lock(cdir):
    src = os.path.join(HARNESS, "Cargo.lock")
    if not os.path.exists(src):
        src = os.path.join(REPO, "Cargo.lock")
    shutil.copy(src, os.path.join(cdir, "Cargo.lock"))


# ---------------------------------------------------------------------------
# generated executors

def module_source(mod_name, defs, perm_of=None):
    """defs: list of (definition, attrs-permutation or None). Returns rust source of `pub mod`."""
    lines = ["pub mod %s {" % mod_name, "    #![allow(dead_code, non_camel_case_types)]", "    use quantities::prelude::*;"]
    for d, attrs in defs:
        for l in defgen.emit_definition(d, attrs, extras=d.get("extras"), styles=d.get("styles")):
            lines.append("    " + l)
        lines.append("")
    lines.append("}")
    return "\n".join(lines)


def instances_of(defs):
    out = []
    for d, _ in defs:
        if d.get("derived"):
            dv = d["derived"]
            res, l, op, r = d["name"], dv["lhs"], dv["op"], dv["rhs"]
            if op == "*":
                inst = [(l, "mul", r, res), (res, "div", r, l)]
                if l != r:
                    inst += [(r, "mul", l, res), (res, "div", l, r)]
            else:
                inst = [(l, "div", r, res), (res, "mul", r, l), (r, "mul", res, l), (l, "div", res, r)]
            out.extend(inst)
    return out


def gen_executor_source(modules):
    """modules: list of {"name": mod_name, "defs": [(definition, attrs)]}.
    Type keys are 'mod::Type'; AmountT is shared."""
    src = ["// GENERATED executor (tools/proglane.py)", "#![allow(unused, non_camel_case_types)]",
           "use qexec::*;", "use qexec::probe::*;", ""]
    for m in modules:
        src.append(module_source(m["name"], m["defs"]))
        src.append("")
    types = []
    for m in modules:
        for d, _ in m["defs"]:
            types.append(("%s::%s" % (m["name"], d["name"]), defgen.kind_of(d), m["name"], d))
    src.append("fn type_table() -> Vec<(&'static str, &'static str)> {")
    src.append("    vec![(\"AmountT\", \"ref\"), " + ", ".join('("%s", "%s")' % (k, kind) for k, kind, _, _ in types) + "]")
    src.append("}")
    src.append("")
    # constants table
    src.append("fn constants() -> Vec<(&'static str, &'static str, String)> {")
    src.append("    vec![")
    for k, kind, mod, d in types:
        us = ([d["ref"]] if d["ref"] else []) + d["units"]
        for u in us:
            c = defgen.const_name(u["ident"])
            src.append('        ("%s", "%s", format!("{:?}", %s::%s)),' % (k, c, mod, c))
    src.append("    ]")
    src.append("}")
    src.append("")
    # probes per module (module types + AmountT)
    src.append("fn all_probes() -> Vec<ProbeRow> {")
    src.append("    let mut v: Vec<ProbeRow> = Vec::new();")
    for m in modules:
        tys = ["quantities::AmountT"] + ["%s::%s" % (m["name"], d["name"]) for d, _ in m["defs"]]
        lst = ", ".join(tys)
        src.append("    cross!(v; [%s]; [%s]);" % (lst, lst))
    src.append("    v")
    src.append("}")
    src.append("")
    # instances
    inst_rows = []
    arms = []
    for m in modules:
        def path(t):
            return "quantities::AmountT" if t == "AmountT" else "%s::%s" % (m["name"], t)

        def key(t):
            return "AmountT" if t == "AmountT" else "%s::%s" % (m["name"], t)
        for (l, op, r, o) in instances_of(m["defs"]):
            inst_rows.append('("%s", "%s", "%s", "%s")' % (key(l), op, key(r), key(o)))
            arms.append('        ("%s", "%s", "%s") => Some(val4!(%s, %s, %s, req)),' % (key(l), op, key(r), path(l), path(r), op))
    src.append("const INSTANCES: &[(&str, &str, &str, &str)] = &[" + ", ".join(inst_rows) + "];")
    src.append("fn dispatch(l: &str, o: &str, r: &str, req: &Value) -> Option<[Value; 4]> {")
    src.append("    match (l, o, r) {")
    src.extend(arms)
    src.append("        _ => None,")
    src.append("    }")
    src.append("}")
    src.append("")
    src.append("fn handle(req: &Value) -> Value {")
    src.append("    let op = s(req, \"op\");")
    src.append("    match op {")
    src.append('        "types" => { let tl: Vec<Value> = type_table().iter().map(|(n, k)| json!({"ty": n, "kind": k})).collect();')
    src.append('            return json!({"types": tl, "backend": BACKEND, "one": enc(AMNT_ONE), "zero": enc(AMNT_ZERO)}); }')
    src.append('        "constants" => { let v: Vec<Value> = constants().into_iter().map(|(t, c, d)| json!({"ty": t, "const": c, "dbg": d})).collect(); return json!({"constants": v}); }')
    src.append('        "probes" => { let rows: Vec<Value> = all_probes().into_iter().map(|p| json!({"l": p.l, "r": p.r, "t": p.names, "eq": p.eq, "ord": p.ord})).collect(); return json!({"rows": rows}); }')
    src.append('        "instances" => return json!({"instances": INSTANCES}),')
    src.append('        "native" => { let x = amt(req, "x"); let y = amt(req, "y"); return json!({"mul": guard(|| json!(enc(x * y))), "div": guard(|| json!(enc(x / y)))}); }')
    src.append('        "bin" => { return match dispatch(s(req, "l"), s(req, "o"), s(req, "r"), req) { Some([oo, ro, or, rr]) => json!({"oo": oo, "ro": ro, "or": or, "rr": rr}), None => panic!("HARNESS: no such operator instance") }; }')
    src.append("        _ => {}")
    src.append("    }")
    src.append('    let ty = s(req, "ty");')
    src.append("    match ty {")
    src.append('        "AmountT" => ref_type!(quantities::AmountT, req),')
    for k, kind, mod, d in types:
        mac = {"ref": "ref_type", "noref": "noref_type", "single": "single_type"}[kind]
        src.append('        "%s" => %s!(%s, req),' % (k, mac, k))
    src.append('        other => panic!("HARNESS: unknown type {}", other),')
    src.append("    }")
    src.append("}")
    src.append("")
    src.append("fn main() {\n    serve(handle);\n}")
    return "\n".join(src) + "\n"


def build_executor(name, modules, backend, keep_on_fail=True):
    """Writes and builds the generated executor. Returns (binary path | None, diagnostics, crate dir)."""
    cdir = crate_dir("%s-%s" % (name, backend))
    shutil.rmtree(cdir, ignore_errors=True)
    _write(os.path.join(cdir, "Cargo.toml"), cargo_toml("gexec", backend))
    _write(os.path.join(cdir, "src", "main.rs"), gen_executor_source(modules))
    ensure_lock(cdir)
    tgt = target_for(backend)
    p = fw._cargo(["build", "--message-format=json"], cdir, tgt)
    diags = [d for d in fw.parse_diags(p.stdout) if d["level"] == "error"]
    if p.returncode != 0:
        return None, diags, cdir
    # keep a private copy of the binary: the shared target dir is reused by the next generated crate
    binp = os.path.join(tgt, "debug", "gexec")
    own = os.path.join(cdir, "gexec.bin")
    shutil.copy(binp, own)
    return own, diags, cdir


# ---------------------------------------------------------------------------
# compile-verdict crates

def check_examples(name, examples, backend, extra_files=None, timeout=1800):
    """examples: {target_name: source}. One `cargo check --examples --keep-going` run.
    Returns {target: {"ok": bool, "errors": [diag...]}}, plus raw diagnostics list."""
    cdir = crate_dir("%s-%s" % (name, backend))
    shutil.rmtree(cdir, ignore_errors=True)
    _write(os.path.join(cdir, "Cargo.toml"), cargo_toml("cverdict", backend, qexec=False))
    _write(os.path.join(cdir, "src", "lib.rs"), "// empty\n")
    for t, src in examples.items():
        _write(os.path.join(cdir, "examples", t + ".rs"), src)
    for rel, src in (extra_files or {}).items():
        _write(os.path.join(cdir, rel), src)
    ensure_lock(cdir)
    tgt = target_for(backend, "cv")
    p = fw._cargo(["check", "--examples", "--keep-going", "--message-format=json"], cdir, tgt, timeout=timeout)
    res = {t: {"ok": False, "errors": [], "artifact": False} for t in examples}
    for line in p.stdout.splitlines():
        if not line.startswith("{"):
            continue
        try:
            m = json.loads(line)
        except ValueError:
            continue
        tn = (m.get("target") or {}).get("name")
        if m.get("reason") == "compiler-artifact" and tn in res and "example" in (m.get("target") or {}).get("kind", []):
            res[tn]["artifact"] = True
        elif m.get("reason") == "compiler-message" and tn in res:
            msg = m["message"]
            if msg.get("level") == "error":
                spans = [s for s in msg.get("spans", []) if s.get("is_primary")]
                res[tn]["errors"].append({"code": (msg.get("code") or {}).get("code"), "message": msg.get("message"),
                                          "file": spans[0]["file_name"] if spans else None,
                                          "line": spans[0]["line_start"] if spans else None,
                                          "line_end": spans[0]["line_end"] if spans else None})
    for t in res:
        res[t]["ok"] = res[t]["artifact"] and not res[t]["errors"]
    return res, cdir, p


def cleanup(cdir):
    shutil.rmtree(cdir, ignore_errors=True)
