"""C18 - Operations are total on in-range inputs."""
from fractions import Fraction
import framework as fw
import corelane as cl
import derivlane as dl
import oracle as orc
import amounts as am
import c08, c15
from common import Rng, frac_of, enc_round, dec_from_fraction, f64_is_finite

PID = "C18"
BINS = ["x_core", "x_derived", "x_rate", "x_conv"]
RULE = ("f64: conversion, comparison, + - /, scalar ops, constructors, _fit, Display (extreme width/precision), every derived operator "
        "instance in four operand forms, rate operations and conversion tables x all units (exhaustive unit pairs per type) x EVERY class of "
        "IEEE value (zeros, subnormals, MAX, infinities, NaN payloads, raw random 64-bit patterns); Decimal: the same operations with amounts "
        "planned in exact rationals so that every magnitude named by the precondition lies in [1e-15, 1e17] (log-uniform, edges included) and "
        "divisors are non-zero; oracle: no panic anywhere in any response; cell = (backend,op group,type or instance,u,v); "
        "non-trivial = request carries a special / edge-of-box amount")
RATE_TYPES = ["AmountT", "Mass", "Length", "Duration", "DataVolume", "SynA"]


def prepare(backends):
    return dl.prepare(backends)


def prepare_all(backends, profile="dev"):
    env = cl.prepare(backends, BINS, profile)
    return env


def plan(env, tier, seed, profile="dev"):
    n = 10 if tier == "quick" else 40
    tasks = []
    for b, e in env.items():
        reg = e["reg"]
        for ty, ent in reg.items():
            if ty.startswith("_") or ent["kind"] != "ref":
                continue
            tasks.append({"kind": "core", "backend": b, "ty": ty, "entry": ent, "bin": e["bins"]["x_core"], "n": n, "seed": seed, "profile": profile})
        for inst in dl.expected_instances(b):
            l, op, r, out = inst[:4]
            tasks.append({"kind": "derived", "backend": b, "inst": inst[:4], "l": reg[l], "r": reg[r], "out": reg[out],
                          "bin": e["bins"]["x_derived"], "n": n, "seed": seed, "profile": profile})
        for tq in RATE_TYPES:
            for pq in RATE_TYPES:
                tasks.append({"kind": "rate", "backend": b, "tq": tq, "pq": pq, "tent": reg[tq], "pent": reg[pq],
                              "bin": e["bins"]["x_rate"], "n": n * 4, "seed": seed, "profile": profile})
        for ty in ("SynA", "Length"):
            tasks.append({"kind": "conv", "backend": b, "ty": ty, "entry": reg[ty], "bin": e["bins"]["x_conv"], "n": n * 20, "seed": seed, "profile": profile})
    return tasks


def box_amount(rng, su, smin, neg_ok=True):
    """Decimal amount for a unit of scale su whose magnitude is log-uniform over the whole box."""
    lo = orc.BOX_LO
    hi = orc.BOX_HI * smin
    import math
    le, he = math.log10(float(lo)), math.log10(float(hi))
    for _ in range(50):
        e = le + (he - le) * rng.random()
        if rng.random() < 0.15:
            e = rng.choice([le + 0.0001, he - 0.0001, le + 0.3, he - 0.3])          # edges
        digits = rng.choice([1, 2, 3, 6, 12, 18])
        M = Fraction(10) ** int(math.floor(e)) * Fraction(rng.randint(10 ** (digits - 1), 10 ** digits - 1), 10 ** (digits - 1))
        x = am.clip_dec(M / su)
        if x != 0 and orc.in_box(x, su, smin):
            if neg_ok and rng.random() < 0.3:
                x = -x
            return dec_from_fraction(x)
    return None


def hostile_spec(rng):
    sp = c15.random_spec(rng)
    if rng.random() < 0.2:
        sp["width"] = rng.choice([0, 41, 100, 255, 256, 1000])
    if rng.random() < 0.2:
        # incl. the limits of narrower integer types (i8, u8), in case the precision is converted on the way
        sp["prec"] = rng.choice([0, 19, 20, 30, 60, 127, 128, 129, 200, 255, 256, 300, 1000])
    return sp


def amount(rng, b, ent, uidx):
    """(enc, special?)"""
    if b == "f64":
        x, cls = c08.any_amount(rng, b)
        return x, not cls.startswith(("short", "small"))
    u = ent["units"][uidx]
    smin, _ = cl.smin_smax(ent)
    if rng.random() < 0.15:
        return "0:0", True
    x = box_amount(rng, u["scale"], smin)
    return (x or "1:0"), True


def work(task):
    part = fw.Part()
    b = task["backend"]
    kind = task["kind"]
    rng = Rng("%s/C18/%s/%s/%s" % (task["seed"], b, kind, task.get("ty") or task.get("inst") or (task.get("tq"), task.get("pq"))))
    cases = []
    if kind == "core":
        ty, ent = task["ty"], task["entry"]
        smin, _ = cl.smin_smax(ent)
        for (u, v) in cl.unit_pairs(ent):
            su, sv = ent["units"][u]["scale"], ent["units"][v]["scale"]
            if not cl.pair_ok(b, su, sv):
                continue
            for _ in range(task["n"]):
                x, sx = amount(rng, b, ent, u)
                y, sy = amount(rng, b, ent, v)
                reqs = [{"op": "convert", "ty": ty, "x": x, "u": u, "v": v},
                        {"op": "cmp", "ty": ty, "x": x, "u": u, "y": y, "v": v}]
                divisor_ok = True
                if b == "dec":
                    fy = frac_of(y, b)
                    yc = fy * sv / su
                    divisor_ok = fy != 0 and orc.in_box_value(yc) and yc != 0 and orc.in_box_value(frac_of(x, b) * su / (fy * sv))
                    # sum / difference must stay in range too
                    sx_ = frac_of(x, b) * su
                    tot = abs(sx_) + abs(fy * sv)
                    if not (orc.in_box_value(tot) and orc.in_box_value(tot / smin)):
                        divisor_ok = None
                if divisor_ok is not None:
                    reqs.append({"op": "arith", "ty": ty, "x": x, "u": u, "y": y, "v": v, "_nodiv": not divisor_ok})
                k = c08.any_amount(rng, b)[0] if b == "f64" else enc_round(am.sig_round(am.log_uniform(rng, -3, 3), 3), b)
                if b == "f64" or scalar_in_box(b, x, k, su, smin):
                    reqs.append({"op": "scalar", "ty": ty, "x": x, "u": u, "k": k})
                reqs.append(dict({"op": "fmt", "ty": ty, "x": x, "u": u}, **hostile_spec(rng)))
                if b == "f64" or (frac_of(x, b) != 0):
                    m = x if b == "f64" else dec_from_fraction(am.clip_dec(frac_of(x, b) * su))
                    if m is not None:
                        reqs.append({"op": "fit", "ty": ty, "x": m})
                cases.append({"group": "core", "ty": ty, "u": u, "v": v, "special": sx or sy, "reqs": reqs})
    elif kind == "derived":
        l, op, r, out = task["inst"]
        lent, rent, oent = task["l"], task["r"], task["out"]
        lmin, _ = cl.smin_smax(lent)
        rmin, _ = cl.smin_smax(rent)
        for uu in lent["units"]:
            for vu in rent["units"]:
                su, sv = uu["scale"], vu["scale"]
                S = su * sv if op == "mul" else su / sv
                for _ in range(task["n"]):
                    x, sx = amount(rng, b, lent, uu["idx"])
                    y, sy = amount(rng, b, rent, vu["idx"])
                    raw = None
                    if b == "dec":
                        fx, fy = frac_of(x, b), frac_of(y, b)
                        if op == "div" and fy == 0:
                            continue
                        M = fx * su * fy * sv if op == "mul" else (fx * su) / (fy * sv)
                        if not dl.result_box_ok(b, M, S, oent):
                            continue
                        raw = abs(fx * fy) if op == "mul" else abs(fx / fy)
                    cases.append({"group": "derived", "inst": [l, op, r, out], "u": uu["idx"], "v": vu["idx"], "special": sx or sy,
                                  "raw_ge_1e20": bool(raw is not None and raw >= 10 ** 20),
                                  "reqs": [{"op": "bin", "l": l, "o": op, "r": r, "x": x, "u": uu["idx"], "y": y, "v": vu["idx"]}]})
    elif kind == "rate":
        tq, pq, tent, pent = task["tq"], task["pq"], task["tent"], task["pent"]
        for _ in range(task["n"]):
            tu, pu = rng.randint(0, len(tent["units"]) - 1), rng.randint(0, len(pent["units"]) - 1)
            qu, tqu = rng.randint(0, len(pent["units"]) - 1), rng.randint(0, len(tent["units"]) - 1)
            if b == "f64":
                ta, pm, q, t = (c08.any_amount(rng, b)[0] for _ in range(4))
                special = True
            else:
                ta, pm = c13_nonzero(rng, b), c13_nonzero(rng, b)
                zero_term = rng.random() < 0.1
                if zero_term:
                    ta = "0:0"
                q = cl.safe_amounts(rng, b, pent, qu, 1, ["short_dec", "small_int", "safe_random"])
                t = cl.safe_amounts(rng, b, tent, tqu, 1, ["short_dec", "small_int", "safe_random"])
                if not q or not t:
                    continue
                q, t = q[0][0], t[0][0]
                special = False
                if not zero_term and not rate_in_box(b, ta, pm, q, t, tent, pent, tu, pu, qu, tqu):
                    continue
                if zero_term and not rate_in_box(b, "1:0", pm, q, "0:0", tent, pent, tu, pu, qu, tqu):
                    continue
            base = {"tq": tq, "pq": pq, "ta": ta, "tu": tu, "pm": pm, "pu": pu}
            cases.append({"group": "rate", "tq": tq, "pq": pq, "special": special, "zero_term": b == "dec" and ta == "0:0",
                          "reqs": [dict(base, op="rate", **hostile_spec(rng)), dict(base, op="apply", q=q, qu=qu, t=t, tqu=tqu)]})
    else:
        ty, ent = task["ty"], task["entry"]
        nu = len(ent["units"])
        import c14
        for _ in range(task["n"]):
            N = rng.choice([1, 2, 4])
            table = [[rng.randint(0, nu - 1), rng.randint(0, nu - 1),
                      c08.any_amount(rng, b)[0] if b == "f64" else c14.coef(rng, b), c08.any_amount(rng, b)[0] if b == "f64" else c14.coef(rng, b)] for _ in range(N)]
            u, v = table[0][0], table[0][1]
            x = c08.any_amount(rng, b)[0] if b == "f64" else am.short_decimal(rng, b)
            cases.append({"group": "conv", "ty": ty, "special": b == "f64",
                          "reqs": [{"op": "table", "ty": ty, "table": table, "x": x, "u": u, "v": v}]})
    fw.run_cases(part, task["bin"], cases, judge, {"backend": b, "module": "c18", "profile": task.get("profile", "dev")})
    return part


def c13_nonzero(rng, b):
    import c13
    return c13.nonzero(rng, b)


def scalar_in_box(b, x, k, su, smin):
    fx, fk = frac_of(x, b), frac_of(k, b)
    if fk == 0:
        return False
    for v in (fx * fk, fx / fk):
        if not (v == 0 or orc.in_box(v, su, smin)):
            return False
    return True


def rate_in_box(b, ta, pm, q, t, tent, pent, tu, pu, qu, tqu):
    fta, fpm, fq, ft = (frac_of(z, b) for z in (ta, pm, q, t))
    s = lambda ent, i: ent["units"][i]["scale"]
    vals = []
    if fq != 0:
        r1 = fq * s(pent, qu) / s(pent, pu)
        vals += [r1, r1 / fpm, r1 / fpm * fta]
    if ft != 0:
        r2 = ft * s(tent, tqu) / s(tent, tu)
        vals += [r2, r2 / fta, r2 / fta * fpm]
    return all(orc.in_box_value(v) for v in vals)


def find_panics(o, path=""):
    out = []
    if isinstance(o, dict):
        if "panic" in o and isinstance(o["panic"], str):
            out.append((path, o["panic"]))
        for k, v in o.items():
            if k != "panic":
                out.extend(find_panics(v, path + "/" + str(k)))
    elif isinstance(o, list):
        for i, v in enumerate(o):
            out.extend(find_panics(v, path + "/%d" % i))
    return out


def judge(part, case, resps, ctx):
    b = ctx["backend"]
    grp = case["group"]
    for req, r in zip(case["reqs"], resps):
        part.evals += 1
        ps = find_panics(r)
        if req.get("_nodiv"):
            ps = [p for p in ps if not (p[0].endswith("/div") or p[0].endswith("/n_div"))]
        if case.get("zero_term"):
            # a zero term amount is a zero divisor for value / rate, reciprocal * value and the round trip
            ps = [p for p in ps if not p[0].startswith(("/tdr", "/rect", "/back"))]
        # the amount type's own reference computations are not library operations
        ps = [p for p in ps if "/n_" not in p[0] and not p[0].startswith("/nat")]
        if not ps:
            continue
        where = case.get("ty") or case.get("inst") or (case.get("tq"), case.get("pq"))
        if grp == "derived" and b == "dec" and case.get("raw_ge_1e20"):
            kind = "panic_raw_amount_overflow"
        else:
            kind = "panic"
        sig = {"backend": b, "kind": kind, "group": grp, "op": req["op"], "where": str(where),
               "class": {"kind": kind, "backend": b, "group": grp, "op": req["op"], "where": str(where), "path": ps[0][0]}}
        part.violation(sig, "C18 %s: %s %s %s request %s panicked at %s: %s" % (kind, b, grp, where, {k: v for k, v in req.items() if k != "table"}, ps[0][0], ps[0][1]),
                       {"module": "c18", "backend": b, "bin": {"core": "x_core", "derived": "x_derived", "rate": "x_rate", "conv": "x_conv"}[grp],
                        "case": dict(case, reqs=[req]), "resps": [r]})
    part.cell(b, grp, case.get("ty") or "/".join(case.get("inst", [])) or "%s/%s" % (case.get("tq"), case.get("pq")), case.get("u"), case.get("v"))
    if case.get("special"):
        part.count("special_or_edge_requests", len(case["reqs"]))
        part.sample({"backend": b, "group": grp, "request": case["reqs"][0], "response": resps[0], "expectation": "no panic"}, limit=1)


def main(tier, seed, nproc, t0):
    import time
    backends = ("f64", "dec")
    total = fw.Part()
    profiles = ["dev"] + (["release"] if tier == "thorough" else [])
    for prof in profiles:
        env = cl.prepare(backends, BINS, prof)
        if prof == "dev":
            for bk in backends:
                r = fw.run_exec(env[bk]["bins"]["x_derived"], [{"op": "instances"}])[0]
                if sorted(tuple(i) for i in r["instances"]) != sorted(i[:4] for i in dl.expected_instances(bk)):
                    raise fw.Inconclusive("executor instance table differs from tables/derivations.json")
        tasks = plan(env, tier, seed, prof)
        part = fw.run_tasks("c18", "work", tasks, nproc)
        part.counters = {("%s:%s" % (prof, k)): v for k, v in part.counters.items()}
        total.merge(part)
    extra = {"profiles": profiles}
    if tier == "thorough":
        extra["miri"] = miri_smoke(total, seed)
    return fw.finish(PID, tier, seed, total, t0, RULE, extra=extra, min_evals=1000,
                     assumptions=["f64 hardware arithmetic and the fpdec crate are the trusted amount types",
                                  "Decimal requests are planned from the observed unit scales in exact rationals"])


def miri_smoke(part, seed):
    """Reduced workload of x_core / x_derived under Miri (UB / overflow interpreter); see miri.py."""
    try:
        import miri
        return miri.smoke(part, seed, "C18")
    except fw.Inconclusive as e:
        part.notes.append("miri step inconclusive: %s" % e)
        return {"status": "inconclusive", "reason": str(e)}
