"""./check --setup : build every executor for both back-ends, offline, from files on disk only."""
import sys, time
import framework as fw

ALL_BINS = ["x_core", "x_derived", "x_rate", "x_conv", "x_names", "x_si", "x_serde"]


def main():
    t0 = time.time()
    rc = 0
    for b in ("f64", "dec"):
        try:
            fw.build_bins(b, ALL_BINS)
            fw.build_bins(b, ["x_core", "x_derived"], nostd=True)
            fw.build_bins(b, ["x_core", "x_rate"], nostd=True)
            fw.build_bins(b, ["x_core", "x_derived", "x_rate", "x_conv"], "release")      # C18 and the release lane of C10
            print("built executors for %s (%.1fs)" % (b, time.time() - t0))
        except (fw.Inconclusive, fw.BuildViolation) as e:
            print("setup: building executors for %s failed: %s" % (b, e))
            rc = 1
    return rc
