"""./check --setup : build every executor for both back-ends, offline, from files on disk only."""
import sys, time
from concurrent.futures import ThreadPoolExecutor
import framework as fw

ALL_BINS = ["x_core", "x_derived", "x_rate", "x_conv", "x_names", "x_si", "x_serde"]


def _one(b):
    t0 = time.time()
    try:
        fw.build_bins(b, ALL_BINS)
        fw.build_bins(b, ["x_core", "x_derived"], nostd=True)
        fw.build_bins(b, ["x_core", "x_rate"], nostd=True)
        fw.build_bins(b, ["x_core", "x_derived", "x_rate", "x_conv"], "release")      # C18 and the release lane of C10
        return "built executors for %s (%.1fs)" % (b, time.time() - t0), 0
    except (fw.Inconclusive, fw.BuildViolation) as e:
        return "setup: building executors for %s failed: %s" % (b, e), 1


def main():
    # the two back-ends use separate cargo target directories, so they build side by side
    rc = 0
    with ThreadPoolExecutor(2) as ex:
        for msg, r in ex.map(_one, ("f64", "dec")):
            print(msg)
            rc |= r
    return rc
