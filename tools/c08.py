"""C08 - Construction and scaling by numbers are exact and unit-preserving."""
from fractions import Fraction
import framework as fw
import corelane as cl
import oracle as orc
import amounts as am
from common import Rng, frac_of, enc_round, f64_bits

PID = "C08"
BINS = ["x_core"]
RULE = ("every type of the executor universe (reference unit, none, single-unit, dimensionless AmountT) x every unit (exhaustive) x "
        "amounts of ALL classes (f64: +-0, subnormals, MAX, +-inf, NaN payloads, random 64-bit patterns; decimal: 18-digit fractions, "
        "huge coefficients) x scalars of the same classes; Q::new, x*u, u*x, k*q, q*k, q/k compared bit for bit with the inputs / the "
        "amount type's own product and quotient; cell = (backend,type,unit,op,amount class,scalar class); non-trivial = amount not 0 or 1")


def plan(env, tier, seed):
    n = 24 if tier == "quick" else 4000
    nk = 4 if tier == "quick" else 16
    tasks = cl.split_tasks(env, lambda ty, e: True)
    for t in tasks:
        t.update({"n": n, "nk": nk, "seed": seed})
    return tasks


def any_amount(rng, b):
    """(encoding, class) from every value class of the back-end."""
    if b == "f64":
        c = rng.choice(["special", "special", "random_bits", "short_dec", "small_int", "digits17", "log_uniform", "subnormal"])
        if c == "special":
            k = rng.choice(sorted(am.F64_SPECIALS))
            return am.F64_SPECIALS[k], "special:" + k
        if c == "random_bits":
            return am.f64_random_bits(rng), c
        if c == "short_dec":
            return am.short_decimal(rng, b), c
        if c == "small_int":
            return am.small_int(rng, b), c
        if c == "digits17":
            return am.f64_17digits(rng), c
        if c == "subnormal":
            return "%016x" % (rng.randint(1, (1 << 52) - 1) | (rng.randint(0, 1) << 63)), c
        x = am.log_uniform(rng, -300, 300)
        return f64_bits(float(x) * (-1 if rng.random() < 0.3 else 1)), c
    c = rng.choice(["zero", "short_dec", "small_int", "frac18", "huge", "log_uniform", "trailing_zeros", "one_variants"])
    if c == "one_variants":
        # numerically one (or minus one) with different stored fractional digits
        return rng.choice(["1:0", "10:1", "100:2", "1000000:6", "-1:0", "-10:1", "1000000000000000000:18"]), c
    if c == "zero":
        return rng.choice(["0:0", "0:7", "0:18"]), c
    if c == "short_dec":
        return am.short_decimal(rng, b), c
    if c == "small_int":
        return am.small_int(rng, b), c
    if c == "frac18":
        return am.dec_18frac(rng), c
    if c == "huge":
        coeff = rng.randint(10 ** 30, 10 ** 37) * rng.choice([1, -1])
        return "%d:%d" % (coeff, rng.randint(0, 18)), c
    if c == "trailing_zeros":
        return "%d:%d" % (rng.randint(1, 999) * 10 ** rng.randint(1, 6), rng.randint(1, 18)), c
    x = am.clip_dec(am.log_uniform(rng, -15, 17))
    from common import dec_from_fraction
    return dec_from_fraction(x * rng.choice([1, -1])), c


def work(task):
    part = fw.Part()
    b, ty, ent = task["backend"], task["ty"], task["entry"]
    rng = Rng("%s/C08/%s/%s" % (task["seed"], b, ty))
    cases = []
    for ui in range(len(ent["units"])):
        for _ in range(task["n"]):
            x, cls = any_amount(rng, b)
            cases.append({"kind": "new", "ty": ty, "u": ui, "x": x, "cls": cls,
                          "reqs": [{"op": "new", "ty": ty, "x": x, "u": ui}]})
            for _ in range(max(1, task["nk"] // 4)):
                k, kcls = any_amount(rng, b)
                cases.append({"kind": "scalar", "ty": ty, "u": ui, "x": x, "k": k, "cls": cls, "kcls": kcls,
                              "reqs": [{"op": "scalar", "ty": ty, "x": x, "u": ui, "k": k}]})
    fw.run_cases(part, task["bin"], cases, judge, {"backend": b, "ty": ty, "entry": ent, "module": "c08"})
    # the dimensionless amount type behaves as a quantity with the single unit One
    if ty == "AmountT":
        part.evals += 1
        us = ent["units"]
        ok = (len(us) == 1 and us[0]["dbg"] == "One" and us[0]["symbol"] == "" and ent["unit_iter"] == ["One"]
              and us[0].get("scale_enc") == cl_one(b))
        if not ok:
            part.violation({"kind": "amount_as_quantity", "backend": b, "type": ty, "class": {"kind": "amount_as_quantity", "backend": b}},
                           "C08 AmountT as quantity: expected exactly one unit One with empty symbol and scale one, observed %r" % (ent,),
                           {"module": "c08", "backend": b, "ty": ty, "case": {"reqs": [{"op": "dump", "ty": ty}], "kind": "dump"}})
    return part


def cl_one(b):
    return "3ff0000000000000" if b == "f64" else "1:0"


def judge(part, case, resps, ctx):
    b, ty, ent = ctx["backend"], ctx["ty"], ctx["entry"]
    r = resps[0]
    if case.get("kind") == "dump":
        return
    uu = ent["units"][case["u"]]
    part.evals += 1

    def viol(kind, text):
        sig = {"backend": b, "type": ty, "unit": uu["dbg"], "kind": kind, "cls": case.get("cls"),
               "class": {"kind": kind, "backend": b, "type": ty, "unit": uu["dbg"]}}
        part.violation(sig, "C08 %s: %s %s x=%s unit=%s k=%s: %s" % (kind, b, ty, case["x"], uu["dbg"], case.get("k"), text),
                       {"module": "c08", "backend": b, "ty": ty, "case": case, "resps": resps})

    if "panic" in r:
        viol("panic", "request panicked: %s" % r["panic"])
        return
    nontrivial = case["x"] not in ("0000000000000000", "3ff0000000000000", "0:0", "1:0")
    if case["kind"] == "new":
        for form in ("new", "xu", "ux"):
            q = r[form]
            if q["u"] != uu["dbg"]:
                viol("ctor_unit", "%s stored unit %s" % (form, q["u"]))
            if q["a"] != case["x"]:
                viol("ctor_amount", "%s stored amount %s instead of %s" % (form, q["a"], case["x"]))
            if nontrivial:
                part.cell(b, ty, uu["dbg"], form, case["cls"].split(":")[0])
        part.sample({"backend": b, "type": ty, "request": case["reqs"][0], "response": r,
                     "expectation": "all three constructors store amount %s and unit %s" % (case["x"], uu["dbg"])}, limit=1)
        return
    for form, nat in (("kq", "n_kx"), ("qk", "n_xk"), ("qdk", "n_xdk")):
        q, nv = r[form], r[nat]
        qp = isinstance(q, dict) and "panic" in q
        np_ = isinstance(nv, dict) and "panic" in nv
        if np_ and qp:
            part.count("both_panic")
            continue
        if qp and not np_:
            viol("scalar_panic", "%s panicked (%s) although the amount type's own operation gives %s" % (form, q["panic"], nv))
            continue
        if np_ and not qp:
            part.count("native_panic_only")
            continue
        if q["u"] != uu["dbg"]:
            viol("scalar_unit", "%s changed the unit to %s" % (form, q["u"]))
        if not orc.same_bits(q["a"], nv, b):
            viol("scalar_amount", "%s gives amount %s, the amount type's own result is %s" % (form, q["a"], nv))
        if nontrivial:
            part.cell(b, ty, uu["dbg"], form, case["cls"].split(":")[0], case["kcls"].split(":")[0])
    part.sample({"backend": b, "type": ty, "request": case["reqs"][0], "response": r,
                 "expectation": "unit kept; amounts bit-equal to the native k*x, x*k, x/k"}, limit=1)
