"""C03 - Sum, difference and ratio of like quantities honour units."""
from fractions import Fraction
import framework as fw
import corelane as cl
import oracle as orc
import amounts as am
from common import Rng, frac_of, enc_exact, enc_round

PID = "C03"
BINS = ["x_core"]
RULE = ("every reference-unit type x ALL ordered unit pairs (exhaustive) x amount pairs (independent, equal-by-construction for exact "
        "cancellation, one operand zero, opposite signs, very different magnitudes), both back-ends; a+b, a-b, b-a, a/b per request; "
        "cell = (backend,type,u,v,pair kind); non-trivial = different units, both amounts non-zero")


def plan(env, tier, seed):
    n = 10 if tier == "quick" else 600
    tasks = cl.split_tasks(env, lambda ty, e: e["kind"] == "ref")
    for t in tasks:
        t.update({"n": n, "seed": seed})
    return tasks


def pairs_for(rng, b, ent, u, v, n):
    uu, vu = ent["units"][u], ent["units"][v]
    su, sv = uu["scale"], vu["scale"]
    smin, smax = cl.smin_smax(ent)
    out = []

    def ok(e, s):
        if e is None:
            return False
        x = frac_of(e, b)
        return orc.in_box(x, s, smin) if b == "dec" else orc.f64_safe(x * s / smin, x * s / smax)
    xs = cl.safe_amounts(rng, b, ent, u, n, ["safe_random", "short_dec", "small_int", "safe_random", "long_digits"])
    ys = cl.safe_amounts(rng, b, ent, v, n, ["safe_random", "small_int", "short_dec", "safe_random", "scale_related"])
    for (x, _), (y, _) in zip(xs, ys):
        out.append((x, y, "independent"))
    for k in (Fraction(1), Fraction(3), Fraction(1, 4)):
        x, y = enc_exact(k * sv, b), enc_exact(k * su, b)
        if ok(x, su) and ok(y, sv):
            out.append((x, y, "equal_exact"))
            ny = enc_exact(-k * su, b)
            if ny:
                out.append((x, ny, "opposite"))
    # nearly cancelling operands in different units: the difference is tiny compared with the operands but far
    # above the rounding of a conversion
    for (x, _), d in zip(xs[:3], (Fraction(1, 10 ** 7), Fraction(-1, 10 ** 9), Fraction(3, 10 ** 12))):
        fx = frac_of(x, b)
        if fx != 0:
            y = enc_round(fx * su / sv * (1 + d), b)
            if ok(y, sv) and frac_of(y, b) * sv != fx * su:
                out.append((x, y, "near_cancel"))
    z = enc_round(Fraction(0), b)
    if xs:
        out.append((xs[0][0], z, "rhs_zero"))
    if ys:
        out.append((z, ys[0][0], "lhs_zero"))
    # very different magnitudes
    big = am.safe_amount(rng, b, su, smin, smax, digits=3)
    small = am.safe_amount(rng, b, sv, smin, smax, digits=3)
    if ok(big, su) and ok(small, sv):
        out.append((big, small, "independent"))
    return out


def work(task):
    part = fw.Part()
    b, ty, ent = task["backend"], task["ty"], task["entry"]
    rng = Rng("%s/C03/%s/%s" % (task["seed"], b, ty))
    cases = []
    for (u, v) in cl.unit_pairs(ent):
        if not cl.pair_ok(b, ent["units"][u]["scale"], ent["units"][v]["scale"]):
            part.count("pair_outside_decimal_ratio_range")
            continue
        for (x, y, kind) in pairs_for(rng, b, ent, u, v, task["n"]):
            cases.append({"ty": ty, "u": u, "v": v, "x": x, "y": y, "kind": kind,
                          "reqs": [{"op": "arith", "ty": ty, "x": x, "u": u, "y": y, "v": v}]})
    fw.run_cases(part, task["bin"], cases, judge, {"backend": b, "ty": ty, "entry": ent, "module": "c03"})
    return part


def judge(part, case, resps, ctx):
    b, ty, ent = ctx["backend"], ctx["ty"], ctx["entry"]
    r = resps[0]
    u, v = case["u"], case["v"]
    uu, vu = ent["units"][u], ent["units"][v]
    su, sv = uu["scale"], vu["scale"]
    x, y = frac_of(case["x"], b), frac_of(case["y"], b)
    part.evals += 1

    def viol(kind, text):
        sig = {"backend": b, "type": ty, "u": uu["dbg"], "v": vu["dbg"], "kind": kind, "pair_kind": case["kind"],
               "class": {"kind": kind, "backend": b, "type": ty, "u": uu["dbg"], "v": vu["dbg"]}}
        part.violation(sig, "C03 %s: %s %s a=%s[%s] b=%s[%s]: %s" % (kind, b, ty, case["x"], uu["dbg"], case["y"], vu["dbg"], text),
                       {"module": "c03", "backend": b, "ty": ty, "case": case, "resps": resps})

    ma, mb = x * su, y * sv
    yc = y * sv / su            # exact equivalent of b in a's unit
    xc = x * su / sv
    if b == "f64":
        e_yc = abs(yc) * orc.F64_REL
        e_xc = abs(xc) * orc.F64_REL
    else:
        e_yc = orc.dec_tol(orc.dec_conv_bound(abs(y), sv, su))
        e_xc = orc.dec_tol(orc.dec_conv_bound(abs(x), su, sv))
    for op, want_amt, lhs_unit, tol in (("add", x + yc, uu, e_yc), ("sub", x - yc, uu, e_yc), ("bsub", y - xc, vu, e_xc)):
        res = r[op]
        if "panic" in res:
            viol("panic", "%s panicked: %s" % (op, res["panic"]))
            continue
        if res["u"] != lhs_unit["dbg"]:
            viol("unit", "%s is expressed in %s, expected the left operand's unit %s" % (op, res["u"], lhs_unit["dbg"]))
            continue
        got = frac_of(res["a"], b)
        if u == v:
            nat = r["n_add"] if op == "add" else r["n_sub"]
            if op == "bsub":
                continue
            if not orc.same_bits(res["a"], nat, b):
                viol("same_unit", "%s gives %s, the amount type's own result is %s" % (op, res["a"], nat))
            continue
        if b == "f64":
            # rounding of the converted operand plus one rounding of the sum
            tol2 = tol + (abs(x if op != "bsub" else y) + abs(yc if op != "bsub" else xc)) * orc.F64_REL
        else:
            tol2 = tol
        ratio = orc.check_close(got, want_amt, tol2)
        part.ratio(ratio, {"ty": ty, "op": op, "x": case["x"], "y": case["y"], "u": uu["dbg"], "v": vu["dbg"], "backend": b})
        if ratio > 1:
            viol("magnitude_" + op, "%s = %s %s but exact result is %s; err/tol=%.3g" % (op, float(got), res["u"], float(want_amt), float(ratio)))
    # ratio
    if y != 0:
        res = r["div"]
        if isinstance(res, dict) and "panic" in res:
            if b == "dec" and abs(yc) < 100 * e_yc:
                part.count("div_below_resolution")
            elif b == "dec" and not orc.in_box_value(ma / mb):
                part.count("div_result_outside_decimal_range")     # the ratio itself is not representable with a safety margin
            else:
                viol("panic", "a / b panicked: %s" % res["panic"])
        elif u == v:
            if not orc.same_bits(res, r["n_div"], b):
                viol("same_unit", "a / b gives %s, the amount type's own quotient is %s" % (res, r["n_div"]))
        elif orc.finite(res, b):
            got = frac_of(res, b)
            want = ma / mb
            if b == "f64":
                tol = abs(want) * orc.F64_REL
                judged = True
            else:
                judged = abs(yc) >= 8 * e_yc
                if judged:
                    # x / (yc + e): relative error e/|yc| (first order, doubled for safety) + one rounding
                    tol = abs(want) * (e_yc / abs(yc)) * 2 + orc.dec_tol(orc.H)
                    # alternative order (x*su)/(y*sv): two product roundings + quotient rounding
                    tol = max(tol, orc.dec_tol(orc.H * (1 + abs(want)) / abs(mb) + orc.H))
            if judged:
                ratio = orc.check_close(got, want, tol)
                part.ratio(ratio, {"ty": ty, "op": "div", "x": case["x"], "y": case["y"], "u": uu["dbg"], "v": vu["dbg"], "backend": b})
                if ratio > 1:
                    viol("magnitude_div", "a / b = %s but the ratio of the magnitudes is %s; err/tol=%.3g" % (float(got), float(want), float(ratio)))
            else:
                part.count("div_below_resolution")
        else:
            viol("nonfinite", "a / b is not finite for comfortable finite operands: %s" % res)
    if u != v and x != 0 and y != 0:
        part.cell(b, ty, uu["dbg"], vu["dbg"], case["kind"])
        part.sample({"backend": b, "type": ty, "request": case["reqs"][0], "response": r,
                     "expectation": "a+b, a-b in %s with magnitude M(a)+-M(b); a/b = M(a)/M(b) = %s" % (uu["dbg"], float(ma / mb))}, limit=2)
