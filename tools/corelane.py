"""Helpers shared by the x_core based properties (C01 C02 C03 C08 C09 C10 C15 C18)."""
from fractions import Fraction
import framework as fw
import registry
import amounts as am
import oracle as orc
from common import Rng, frac_of, enc_exact, enc_round, f64_bits


NOSTD_BINS = ("x_core", "x_rate", "x_derived")


def prepare(backends=("f64", "dec"), bins=("x_core",), profile="dev"):
    env = {}
    for b in backends:
        paths = dict(fw.build_bins(b, list(bins), profile))
        nb = [x for x in bins if x in NOSTD_BINS]
        if nb and profile == "dev":
            # the same executors with the library's "std" feature off (a fraction of the workloads runs on them)
            try:
                for k, v in fw.build_bins(b, nb, nostd=True).items():
                    paths[k + "_nostd"] = v
            except fw.Inconclusive as e:
                # The library no longer builds without "std" although the std build above succeeded (a C19 matter).
                # The std lane still observes this property: a violation seen there is reported; without one the
                # verdict stays INCONCLUSIVE (never "held"), because the no_std lane could not be observed.
                fw.DEFERRED_INCONCLUSIVE.append("no_std lane not observed: " + str(e))
        env[b] = {"bins": paths, "reg": registry.load(b, paths) if "x_core" in paths else None}
    return env


def type_scales(entry):
    ss = [u["scale"] for u in entry["units"] if u.get("scale") is not None]
    return ss


def smin_smax(entry):
    ss = [s for s in type_scales(entry) if s and s > 0]
    if not ss:
        return Fraction(1), Fraction(1)
    return min(ss), max(ss)


SAFE_CLASSES = ["zero", "small_int", "short_dec", "safe_random", "scale_related", "safe_random", "long_digits", "neighbour"]


def safe_amounts(rng, backend, entry, uidx, n, classes=None):
    """n tolerance-safe amounts (encoding, class) for unit uidx of a reference-unit type."""
    classes = classes or SAFE_CLASSES
    u = entry["units"][uidx]
    su = u["scale"]
    smin, smax = smin_smax(entry)
    out = []
    tries = 0
    i = 0
    while len(out) < n and tries < n * 20:
        tries += 1
        cls = classes[i % len(classes)]
        i += 1
        e = None
        if cls == "zero":
            e = enc_round(Fraction(0), backend)
        elif cls == "small_int":
            e = am.small_int(rng, backend, -12, 12)
        elif cls == "short_dec":
            e = am.short_decimal(rng, backend)
        elif cls == "safe_random":
            e = am.safe_amount(rng, backend, su, smin, smax)
        elif cls == "scale_related":
            ss = type_scales(entry)
            a = rng.choice(ss)
            b = rng.choice(ss)
            k = rng.choice([1, 1, 2, 3, 5, 10])
            fr = rng.choice([a, 1 / a, a * b, a / b, b / a]) * k
            e = enc_exact(fr, backend)
        elif cls == "long_digits":
            if backend == "f64":
                e = am.f64_17digits(rng)
            else:
                e = am.dec_18frac(rng, rng.randint(0, 4))
        elif cls == "neighbour":
            base = am.safe_amount(rng, backend, su, smin, smax, digits=rng.choice([1, 2, 3]))
            nb = am.neighbours(base, backend)
            e = rng.choice(nb) if nb else None
        if e is None:
            continue
        if backend == "dec":
            x = frac_of(e, backend)
            if not orc.in_box(x, su, smin):
                continue
        else:
            x = frac_of(e, backend)
            if not orc.f64_safe(x * su / smin, x * su / smax):
                continue
        out.append((e, cls))
    return out


def unit_pairs(entry, include_diag=True):
    n = len(entry["units"])
    return [(i, j) for i in range(n) for j in range(n) if include_diag or i != j]


def split_tasks(env, types_filter, per="type", nostd=True):
    """One task per (backend, type), plus one per type on the no_std build of the executor (the caller's
    workload size "n" is cut to a quarter for those by the check driver)."""
    tasks = []
    for b, e in env.items():
        reg = e["reg"]
        for ty, ent in reg.items():
            if ty.startswith("_"):
                continue
            if not types_filter(ty, ent):
                continue
            tasks.append({"backend": b, "ty": ty, "entry": ent, "bin": e["bins"]["x_core"]})
            if nostd and "x_core_nostd" in e["bins"] and not ty.startswith("astro::"):
                tasks.append({"backend": b, "ty": ty, "entry": ent, "bin": e["bins"]["x_core_nostd"], "lib": "no_std"})
    return tasks


RATIO_HI = Fraction(10 ** 19)


def pair_ok(backend, su, sv):
    """Decimal: the ratio of two unit scales must itself be representable (fpdec holds |v| < 1.7e20);
    unit pairs further apart than 1e19 are outside the supported range of the fixed-point back-end."""
    if backend != "dec":
        return True
    return su / sv <= RATIO_HI and sv / su <= RATIO_HI
