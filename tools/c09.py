"""C09 - Unit registry is complete, ordered and invertible."""
from fractions import Fraction
import unicodedata
import framework as fw
import corelane as cl
import oracle as orc
import amounts as am
import declared
from common import Rng, frac_of, enc_round, f64_next, f64_bits, bits_f64, f64_is_nan

PID = "C09"
BINS = ["x_core", "x_names"]
RULE = ("every type of the executor universe (catalogue, astro, synthetic incl. ties, duplicate symbols, a scale-1 unit declared before "
        "the reference unit; thorough: + randomly generated definitions) : iteration = declared set exactly once, in specified order; "
        "UPPER_SNAKE constants; exactly one reference unit of scale one; as_qty; symbol lookups with every declared symbol plus near-miss "
        "strings (case flips, prefixes/suffixes, blanks, U+03BC for U+00B5, NFD/NFKC forms, empty, random) and scale lookups with every "
        "declared scale plus +-1 ulp / +-1e-18 perturbations, 0, negatives, NaN/inf; expected = first unit in iteration order; "
        "cell = (backend,type,probe kind,probe); non-trivial = lookup probes and order checks")
EXHAUSTIVE = True


def plan(env, tier, seed):
    tasks = cl.split_tasks(env, lambda ty, e: True)
    for t in tasks:
        t.update({"nrand": 20 if tier == "quick" else 200, "seed": seed, "names_bin": env[t["backend"]]["bins"]["x_names"]})
    if tier == "thorough":
        import genuniverse
        gu = genuniverse.build(seed, "C09", 24)
        for b, e in gu.items():
            for ty, ent in e["reg"].items():
                if ty.startswith("_") or ty == "AmountT":
                    continue
                tasks.append({"backend": b, "ty": ty, "entry": ent, "bin": e["bin"], "nrand": 60, "seed": seed, "decl": e["decl"][ty]})
    # one extra task per backend for the constants
    for b, e in env.items():
        tasks.append({"backend": b, "ty": "_constants", "entry": None, "bin": e["bins"]["x_names"], "reg": e["reg"], "seed": seed})
    return tasks


def near_misses(rng, sym, all_syms, nrand):
    out = set()
    out.add(sym)
    out.add(sym.swapcase())
    out.add(sym.lower())
    out.add(sym.upper())
    out.add(sym + " ")
    out.add(" " + sym)
    out.add(sym + sym)
    if len(sym) > 1:
        out.add(sym[:-1])
        out.add(sym[1:])
    out.add(sym + "x")
    out.add(sym.replace("µ", "μ"))       # U+00B5 -> U+03BC
    out.add(sym.replace("μ", "µ"))
    out.add(unicodedata.normalize("NFD", sym))
    out.add(unicodedata.normalize("NFKC", sym))
    out.add(unicodedata.normalize("NFKD", sym))
    out.add(sym.replace("²", "2").replace("³", "3"))
    return out


def work(task):
    part = fw.Part()
    b, ty = task["backend"], task["ty"]
    if ty == "_constants":
        return work_constants(task, part)
    ent = task["entry"]
    rng = Rng("%s/C09/%s/%s" % (task["seed"], b, ty))
    judge_registry(part, b, ty, ent, decl=task.get('decl'))
    # lookups
    cases = []
    syms = [u["symbol"] for u in ent["units"]]
    # the declared symbols (tables / generated definition) are probed too: a unit that reports another text as its
    # symbol is still consistent with itself, but the symbol it was declared with no longer finds it
    has_ref_d, dents = task["decl"] if task.get("decl") is not None else declared.declared_units(ty)
    dsym = {}
    for e in dents:
        dsym.setdefault(e["symbol"], []).append(e["variant"])
    syms = syms + [x for x in dsym if x not in syms]
    probes = {""}
    for s in syms:
        probes |= near_misses(rng, s, syms, task["nrand"])
    alphabet = sorted(set("".join(syms))) + list("abkKmMiB/ ²µμ")
    for _ in range(task["nrand"]):
        probes.add("".join(rng.choice(alphabet) for _ in range(rng.randint(1, 4))))
    for p in sorted(probes):
        cases.append({"kind": "sym", "t": p, "reqs": [{"op": "sym", "ty": ty, "t": p}]})
    if ent["kind"] == "ref":
        sprobes = set()
        for u in ent["units"]:
            e = u["scale_enc"]
            sprobes.add(e)
            for nb in am.neighbours(e, b, ks=(1, -1, 2, -2)):
                sprobes.add(nb)
            fr = u["scale"]
            sprobes.add(enc_round(-fr, b))
            sprobes.add(enc_round(fr * 10, b))
            sprobes.add(enc_round(fr / 10, b))
            if b == "dec":
                # same value, different number of fractional digits
                c, n = e.split(":")
                if int(n) < 18:
                    sprobes.add("%d:%d" % (int(c) * 10, int(n) + 1))
        sprobes.add(enc_round(Fraction(0), b))
        if b == "f64":
            sprobes |= {"8000000000000000", "7ff0000000000000", "fff0000000000000", "7ff8000000000000", "0000000000000001"}
        for _ in range(task["nrand"]):
            sprobes.add(cl.safe_amounts(rng, b, ent, 0, 1, ["safe_random"])[0][0])
        for p in sorted(sprobes):
            cases.append({"kind": "scale", "x": p, "reqs": [{"op": "scale", "ty": ty, "x": p}]})
    fw.run_cases(part, task["bin"], cases, judge, {"backend": b, "ty": ty, "entry": ent, "module": "c09", "dsym": dsym})
    return part


def viol(part, b, ty, kind, text, case=None, resps=None, extra=None):
    sig = {"backend": b, "type": ty, "kind": kind, "class": {"kind": kind, "backend": b, "type": ty, "detail": extra}}
    part.violation(sig, "C09 %s: %s %s: %s" % (kind, b, ty, text),
                   {"module": "c09", "backend": b, "ty": ty, "case": case or {"kind": "dump", "reqs": [{"op": "dump", "ty": ty}]}, "resps": resps})


def judge_registry(part, b, ty, ent, decl=None):
    """Order / completeness / reference-unit clauses on one registry dump."""
    part.evals += 1
    has_ref, ents = decl if decl is not None else declared.declared_units(ty)
    obs = [u["dbg"] for u in ent["units"]]
    want_set = sorted(e["variant"] for e in ents)
    if len(set(obs)) != len(obs) or set(want_set) - set(obs):
        viol(part, b, ty, "completeness", "iteration yields %s, declared units are %s" % (obs, want_set))
        return
    if set(obs) - set(want_set):
        part.inconclusive.append("%s %s: iterated units %s are not in the declared tables - extend the table to judge them" % (b, ty, sorted(set(obs) - set(want_set))))
        return
    part.cell(b, ty, "completeness")
    if ent["unit_iter"] != obs:
        viol(part, b, ty, "iter_mismatch", "Unit::iter() %s differs from Quantity::iter_units() %s" % (ent["unit_iter"], obs))
    by_var = {e["variant"]: e for e in ents}
    dsyms = [e["symbol"] for e in ents]
    if len(set(dsyms)) == len(dsyms):
        # declared symbols are unique (as in the whole catalogue): every unit must be found by its own symbol
        seen = {}
        for u in ent["units"]:
            if u["symbol"] in seen:
                viol(part, b, ty, "symbol_collision", "units %s and %s report the same symbol %r although the declared symbols are unique, so %s cannot be looked up by symbol" % (
                    seen[u["symbol"]], u["dbg"], u["symbol"], u["dbg"]), extra=u["dbg"])
            seen.setdefault(u["symbol"], u["dbg"])
    if has_ref:
        if ent["kind"] != "ref":
            viol(part, b, ty, "kind", "declared with reference unit but executor kind is %s" % ent["kind"])
            return
        scales = [u["scale"] for u in ent["units"]]
        for i in range(len(scales) - 1):
            ua, ub = ent["units"][i], ent["units"][i + 1]
            if scales[i] > scales[i + 1]:
                viol(part, b, ty, "order", "scale order broken: %s (%s) before %s (%s)" % (ua["dbg"], float(scales[i]), ub["dbg"], float(scales[i + 1])), extra=ua["dbg"])
            elif scales[i] == scales[i + 1]:
                ea, eb = by_var[ua["dbg"]], by_var[ub["dbg"]]
                # reference unit first among units of scale one, declaration order otherwise
                if eb["is_ref"] and scales[i] == 1:
                    viol(part, b, ty, "order_ref_first", "%s precedes the reference unit %s although both have scale one" % (ua["dbg"], ub["dbg"]))
                elif not ea["is_ref"] and not eb["is_ref"] and ea["decl_pos"] > eb["decl_pos"]:
                    viol(part, b, ty, "order_tie", "units of equal scale not in declaration order: %s before %s" % (ua["dbg"], ub["dbg"]), extra=ua["dbg"])
                part.cell(b, ty, "tie", ua["dbg"], ub["dbg"])
        refs = [u for u in ent["units"] if u.get("is_ref")]
        want_ref = [e["variant"] for e in ents if e["is_ref"]]
        if len(refs) != 1:
            viol(part, b, ty, "ref_count", "%d units report is_ref_unit()" % len(refs))
        else:
            ru = refs[0]
            if [ru["dbg"]] != want_ref:
                viol(part, b, ty, "ref_identity", "reference unit is %s, declared %s" % (ru["dbg"], want_ref))
            if ru["scale"] != 1:
                viol(part, b, ty, "ref_scale", "reference unit has scale %s" % ru["scale_enc"])
            if ent["ref_q"] != ru["dbg"] or ent["ref_u"] != ru["dbg"]:
                viol(part, b, ty, "ref_const", "REF_UNIT constants (%s, %s) disagree with is_ref_unit() %s" % (ent["ref_q"], ent["ref_u"], ru["dbg"]))
        part.cell(b, ty, "order")
    else:
        names = [u["name"].encode("utf-8") for u in ent["units"]]
        if names != sorted(names):
            viol(part, b, ty, "name_order", "units of a type without reference unit not in name order: %s" % [u["name"] for u in ent["units"]])
        part.cell(b, ty, "name_order")
    one = "3ff0000000000000" if b == "f64" else None
    for u in ent["units"]:
        # method-call syntax on the concrete unit type must give what the trait (and so every generic code path) gives
        for mk, tk in (("m_scale", "scale_enc"), ("m_is_ref", "is_ref"), ("m_name", "name"), ("m_symbol", "symbol"), ("m_prefix", "prefix")):
            if mk in u and tk in u and u[mk] != u[tk]:
                viol(part, b, ty, "method_shadows_trait", "%s.%s() called as a method gives %r, the trait method gives %r" % (u["dbg"], mk[2:], u[mk], u[tk]), extra=u["dbg"] + mk)
        aq = u["as_qty"]
        a_ok = (aq["a"] == one) if b == "f64" else (frac_of(aq["a"], b) == 1)
        if aq["u"] != u["dbg"] or not a_ok:
            viol(part, b, ty, "as_qty", "%s.as_qty() = %s %s" % (u["dbg"], aq["a"], aq["u"]), extra=u["dbg"])
        if u["disp"] != u["symbol"]:
            viol(part, b, ty, "unit_display", "%s displays as %r, symbol is %r" % (u["dbg"], u["disp"], u["symbol"]), extra=u["dbg"])


def scale_eq(enc_a, fr_b, b):
    if b == "f64":
        if f64_is_nan(enc_a) or not orc.finite(enc_a, b):
            return False
    return frac_of(enc_a, b) == fr_b


def judge(part, case, resps, ctx):
    b, ty, ent = ctx["backend"], ctx["ty"], ctx["entry"]
    if case["kind"] == "dump":
        judge_registry(part, b, ty, ent)
        return
    r = resps[0]
    part.evals += 1
    if "panic" in r:
        viol(part, b, ty, "panic", "lookup panicked: %s" % r["panic"], case, resps)
        return
    if case["kind"] == "sym":
        want = next((u["dbg"] for u in ent["units"] if u["symbol"] == case["t"]), None)
        for f in ("from_symbol", "unit_from_symbol"):
            if r[f] != want:
                viol(part, b, ty, "symbol_lookup", "%s(%r) = %s, first unit in iteration order with that symbol is %s" % (f, case["t"], r[f], want), case, resps, extra=f)
        dsym = ctx.get("dsym")
        if dsym is None:
            dsym = {}
            for e in declared.declared_units(ty)[1] if not ty.startswith("gexec") else []:
                dsym.setdefault(e["symbol"], []).append(e["variant"])
        if case["t"] in dsym:
            # first unit in the observed iteration order among those DECLARED with this symbol
            wd = next((u["dbg"] for u in ent["units"] if u["dbg"] in dsym[case["t"]]), None)
            for f in ("from_symbol", "unit_from_symbol"):
                if wd is not None and r[f] != wd:
                    viol(part, b, ty, "declared_symbol_lookup", "%s(%r) = %s, but %s is declared with that symbol" % (f, case["t"], r[f], wd), case, resps, extra=f)
        part.cell(b, ty, "sym", case["t"])
        if want is not None:
            part.sample({"backend": b, "type": ty, "request": case["reqs"][0], "response": r, "expectation": want}, limit=1)
    else:
        x = case["x"]
        want = None
        if orc.finite(x, b):
            fx = frac_of(x, b)
            want = next((u["dbg"] for u in ent["units"] if u["scale"] == fx), None)
        for f in ("from_scale", "unit_from_scale"):
            if r[f] != want:
                viol(part, b, ty, "scale_lookup", "%s(%s) = %s, first unit in iteration order with that scale is %s" % (f, x, r[f], want), case, resps, extra=f)
        part.cell(b, ty, "scale", x)


def work_constants(task, part):
    b = task["backend"]
    reg = task["reg"]
    resps = fw.run_exec(task["bin"], [{"op": "constants"}, {"op": "ref_units"}])
    consts = resps[0]["constants"]
    seen = {}
    for c in consts:
        part.evals += 1
        ty = c["ty"]
        has_ref, ents = declared.declared_units(ty)
        e = next((e for e in ents if e["const"] == c["const"]), None)
        if e is None:
            part.inconclusive.append("constant %s::%s not in the declared table" % (ty, c["const"]))
            continue
        single = len(ents) == 1
        if c["dbg"] != e["variant"]:
            viol(part, b, ty, "constant", "constant %s is unit %s, expected %s" % (c["const"], c["dbg"], e["variant"]), extra=c["const"])
        if c["via_new"] != e["variant"]:
            viol(part, b, ty, "constant_new", "Q::new(1, %s).unit() = %s" % (c["const"], c["via_new"]), extra=c["const"])
        seen.setdefault(ty, set()).add(e["variant"])
        part.cell(b, ty, "const", c["const"])
    for ty, ent in reg.items():
        if ty.startswith("_") or ty == "AmountT":
            continue
        obs = set(u["dbg"] for u in ent["units"])
        if seen.get(ty, set()) != obs:
            viol(part, b, ty, "constant_coverage", "constants reach %s, iteration yields %s" % (sorted(seen.get(ty, set())), sorted(obs)))
    for rr in resps[1]["ref_units"]:
        part.evals += 1
        ent = reg.get(rr["ty"])
        if ent is None:
            continue
        refs = [u["dbg"] for u in ent["units"] if u.get("is_ref")]
        if [rr["ref_q"]] != refs or [rr["ref_u"]] != refs:
            viol(part, b, rr["ty"], "ref_const", "REF_UNIT constants (%s,%s) vs is_ref_unit %s" % (rr["ref_q"], rr["ref_u"], refs))
    return part
