"""Shared machinery of C04 / C05 (and C18): derived operator instances through x_derived."""
from fractions import Fraction
import framework as fw
import corelane as cl
import oracle as orc
import amounts as am
from common import Rng, frac_of, enc_exact, enc_round, load_table

FORMS = ("oo", "ro", "or", "rr")
FORM_TEXT = {"oo": "a op b", "ro": "&a op b", "or": "a op &b", "rr": "&a op &b"}


def operator_instances(d):
    res, l, op, r = d["res"], d["lhs"], d["op"], d["rhs"]
    if op == "*":
        inst = [(l, "mul", r, res), (res, "div", r, l)]
        if l != r:
            inst += [(r, "mul", l, res), (res, "div", l, r)]
    else:
        inst = [(l, "div", r, res), (res, "mul", r, l), (r, "mul", res, l), (l, "div", res, r)]
    return inst


def expected_instances(backend):
    t = load_table("derivations.json")
    groups = ["derivations", "synthetic_derivations"] + (["astro_derivations"] if backend == "f64" else [])
    out = []
    for g in groups:
        for d in t[g]:
            for inst in operator_instances(d):
                out.append(inst + (g, "%s=%s%s%s" % (d["res"], d["lhs"], d["op"], d["rhs"])))
    return out


def norm_type(tn):
    """Rust type_name -> universe key."""
    if tn in ("f64", "fpdec::Decimal"):
        return "AmountT"
    if tn.startswith("gexec::"):
        return tn[len("gexec::"):]
    if tn.startswith("astronomical_quantities::"):
        return "astro::" + tn.split("::")[-1]
    return tn.split("::")[-1]


def prepare(backends=("f64", "dec"), profile="dev"):
    env = cl.prepare(backends, ("x_core", "x_derived"), profile)
    for b in backends:
        path = env[b]["bins"]["x_derived"]
        r = fw.run_exec(path, [{"op": "instances"}])[0]
        have = sorted(tuple(i) for i in r["instances"])
        want = sorted(i[:4] for i in expected_instances(b))
        if have != want:
            raise fw.Inconclusive("executor instance table differs from tables/derivations.json (run tools/gen_harness.py)")
    return env


def native_scales(bin_path, b, lent, rent):
    """Native sa*sb and sa/sb for all unit pairs: {(u,v): (mul_enc|None, div_enc|None)}"""
    reqs = []
    idx = []
    for u in lent["units"]:
        for v in rent["units"]:
            reqs.append({"op": "native", "x": u["scale_enc"], "y": v["scale_enc"]})
            idx.append((u["idx"], v["idx"]))
    resps = fw.run_exec(bin_path, reqs)
    out = {}
    for k, r in zip(idx, resps):
        m = r["mul"] if isinstance(r["mul"], str) else None
        d = r["div"] if isinstance(r["div"], str) else None
        out[k] = (m, d)
    return out


def box_ok(b, x, su, smin):
    return b != "dec" or orc.in_box(x, su, smin)


def result_box_ok(b, M, S, out_ent):
    """Decimal precondition for the result and the scale product/ratio."""
    if b != "dec":
        return orc.f64_safe(M, S)
    smin, _ = cl.smin_smax(out_ent)
    if not orc.in_box_value(S) or S == 0:
        return False
    return orc.in_box_value(M) and orc.in_box_value(M / smin)


def mag_tol(b, op, la, lb, S, M, s_k):
    """Tolerance on the magnitude (reference units of the result type) of a derived result."""
    if b == "f64":
        return abs(M) * orc.F64_REL
    lab = abs(la * lb) if op == "mul" else abs(la / lb)
    e = lab * orc.H + abs(S) * orc.H + orc.H + s_k * orc.H
    return 4 * e + 2 * orc.E18


def eligible_units(out_ent):
    ref = next((u for u in out_ent["units"] if u.get("is_ref")), None)
    if ref is not None and ref["prefix"] is not None:
        return [u for u in out_ent["units"] if u["prefix"] is not None]
    return list(out_ent["units"])


def expected_fit_scales(M, out_ent, window=None):
    """Set of acceptable scales for the fitting rule on exact magnitude M. With a rounding
    window w, magnitudes within w of a boundary (but not exactly on it) accept both sides."""
    el = sorted(set(u["scale"] for u in eligible_units(out_ent)))
    def pick(m):
        le = [s for s in el if s <= m]
        return le[-1] if le else el[0]
    acc = {pick(M)}
    if window:
        for s in el:
            if abs(M - s) <= window:
                acc.add(pick(M - window))
                acc.add(pick(M + window))
    return acc


RAW_HI = Fraction(10 ** 18)


def raw_ok(op, la, lb):
    """Decimal: the raw product/quotient of the two AMOUNTS (in whatever units the operands
    happen to carry) must itself be representable; |la op lb| >= ~1.7e20 overflows fpdec."""
    v = abs(la * lb) if op == "mul" else abs(la / lb)
    return v <= RAW_HI
