#!/bin/bash
# usage: tools/run_all.sh quick|thorough [seed]   -- runs every check, prints one line each
tier=${1:-quick}; seed=${2:-1}
cd "$(dirname "$0")/.."
for i in 01 02 03 04 05 06 07 08 09 10 11 12 13 14 15 16 17 18 19; do
  s=$(date +%s)
  out=$(VERIF_SEED=$seed ./check C$i --tier $tier 2>&1); rc=$?
  e=$(date +%s)
  echo "C$i rc=$rc $((e-s))s $(echo "$out" | grep -E '^RESULT|^INCONCLUSIVE' | head -1 | cut -c1-160)"
  echo "$out" | grep -E '^VIOLATION' | head -3
done
python3-vt - <<'PY'
import json,jsonschema,glob
sch=json.load(open('/root/.vp/EVIDENCE.schema.json'))
bad=0
for f in sorted(glob.glob('evidence/C*.json')):
    try: jsonschema.validate(json.load(open(f)),sch)
    except Exception as e: bad+=1; print('INVALID',f,str(e)[:200])
print('evidence files valid:', len(glob.glob('evidence/C*.json'))-bad)
PY
