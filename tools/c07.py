"""C07 - Catalogue units carry their defined scales, prefixes and symbols."""
from fractions import Fraction
import framework as fw
import corelane as cl
import declared
import defgen
import tables
from common import frac_of, f64_bits, bits_f64

PID = "C07"
BINS = ["x_core", "x_names"]
RULE = ("every unit of the 14 catalogue quantities in both back-ends and of the 4 astronomical quantities (f64), each against the "
        "hand-written definition table (tables/build_catalogue.py: published definitions chained to the reference unit, evaluated in exact "
        "rationals): name, symbol, SI prefix, scale (terminating definitions: exactly the decimal / its correctly rounded double; "
        "non-terminating: within 2^-51 relative = 2 ulp of f64), prefix consistency (scales of two prefixed units differ by exactly 10^(exponent difference)), "
        "reference unit scale one, set equality with the table; exhaustive; cell = (backend,type,unit,attribute); every cell is non-trivial")
EXHAUSTIVE = True
NONTERM_REL = Fraction(1, 2 ** 51)     # 2 ulp of f64; the hand-computed astronomical literals are within 1.32 ulp


def plan(env, tier, seed):
    tasks = []
    for b, e in env.items():
        tasks.append({"backend": b, "reg": e["reg"], "seed": seed})
    return tasks


def work(task):
    part = fw.Part()
    b, reg = task["backend"], task["reg"]
    cat = declared.catalogue()
    n_units = {"quantities": 0, "astro": 0}
    for key, q in cat.q.items():
        if key.startswith("astro::") and b != "f64":
            continue
        ent = reg.get(key)

        def viol(kind, unit, text):
            sig = {"backend": b, "type": key, "unit": unit, "kind": kind, "class": {"kind": kind, "backend": b, "type": key, "unit": unit}}
            if kind == "scale" and ent is not None:
                u = next((x for x in ent["units"] if x["dbg"] == unit), None)
                if u:
                    sig["scale_enc"] = u["scale_enc"]
            part.violation(sig, "C07 %s: %s %s::%s: %s" % (kind, b, key, unit, text),
                           {"module": "c07", "backend": b, "ty": key, "case": {"kind": "dump", "reqs": [{"op": "dump", "ty": key}]}})
        if ent is None:
            viol("missing_type", "-", "type not in the executor universe")
            continue
        has_ref, ents = declared.declared_units(key)
        obs = {u["dbg"]: u for u in ent["units"]}
        part.evals += 1
        want_set = set(e["variant"] for e in ents)
        missing = sorted(want_set - set(obs))
        extra_units = sorted(set(obs) - want_set)
        if missing:
            viol("unit_set", "-", "published units %s are not iterated (iterated: %s)" % (missing, sorted(obs)))
        if extra_units:
            # a unit the definition table does not know cannot be judged: not a violation, but not a pass either
            part.inconclusive.append("%s %s: units %s are not in tables/catalogue.json - extend the table to judge them" % (b, key, extra_units))
        for e in ents:
            u = obs.get(e["variant"])
            if u is None:
                continue
            n_units["astro" if key.startswith("astro::") else "quantities"] += 1
            part.evals += 1
            if u["name"] != e["name"]:
                viol("name", e["variant"], "name() = %r, identifier spells %r" % (u["name"], e["name"]))
            part.cell(b, key, e["variant"], "name")
            if u["symbol"] != e["symbol"]:
                viol("symbol", e["variant"], "symbol() = %r, published %r" % (u["symbol"], e["symbol"]))
            part.cell(b, key, e["variant"], "symbol")
            if u["prefix"] != e["prefix"]:
                viol("prefix", e["variant"], "si_prefix() = %s, published %s" % (u["prefix"], e["prefix"]))
            part.cell(b, key, e["variant"], "prefix")
            if not has_ref:
                continue
            want = e["scale"]
            got = u["scale"]
            if e["is_ref"]:
                if got != 1:
                    viol("ref_scale", e["variant"], "reference unit has scale %s" % u["scale_enc"])
            elif tables.is_terminating_decimal(want):
                if b == "dec":
                    ok = got == want
                else:
                    ok = u["scale_enc"] == f64_bits(float(want))       # float(Fraction) is correctly rounded
                if not ok:
                    viol("scale", e["variant"], "scale() = %s (%.17g); definition %s gives exactly %s" % (u["scale_enc"], float(got), e.get("def"), want))
            else:
                rel = abs(got - want) / want
                if rel <= NONTERM_REL:
                    part.ratio(rel / NONTERM_REL, {"backend": b, "type": key, "unit": e["variant"]})
                if rel > NONTERM_REL:
                    viol("scale", e["variant"], "scale() = %.17g; definition %s = %.17g (relative deviation %.3g, allowed %.3g)" % (
                        float(got), e.get("def"), float(want), float(rel), float(NONTERM_REL)))
            part.cell(b, key, e["variant"], "scale")
        # SI prefix consistency on reported scales
        if has_ref:
            pref = [(u, defgen.SI_EXP.get(u["prefix"])) for u in ent["units"] if u["prefix"] is not None]
            for i, (ua, ea) in enumerate(pref):
                for (ub, eb) in pref[i + 1:]:
                    part.evals += 1
                    if ea is None or eb is None:
                        viol("prefix_unknown", ua["dbg"], "unknown prefix name")
                        continue
                    want_ratio = Fraction(10) ** (ea - eb)
                    if b == "dec":
                        ok = ua["scale"] / ub["scale"] == want_ratio
                    else:
                        # exact decimal scales stored as correctly rounded doubles: compare the decimal values
                        ok = (Fraction(repr(float(ua["scale"]))) / Fraction(repr(float(ub["scale"]))) == want_ratio)
                    if not ok:
                        viol("prefix_consistency", ua["dbg"], "scale(%s)/scale(%s) = %.17g, prefixes %s/%s demand 10^%d" % (
                            ua["dbg"], ub["dbg"], float(ua["scale"] / ub["scale"]), ua["prefix"], ub["prefix"], ea - eb))
                    # the same with the exponents the library itself reports for these prefixes
                    ra, rb = ua.get("prefix_exp"), ub.get("prefix_exp")
                    if ra is not None and rb is not None and (ra, rb) != (ea, eb):
                        want2 = Fraction(10) ** (ra - rb)
                        ok2 = (ua["scale"] / ub["scale"] == want2) if b == "dec" else (
                            Fraction(repr(float(ua["scale"]))) / Fraction(repr(float(ub["scale"]))) == want2)
                        if not ok2:
                            viol("prefix_consistency_reported_exponent", ua["dbg"],
                                 "scale(%s)/scale(%s) = %.17g, but si_prefix().exp() reports %d and %d for %s/%s" % (
                                     ua["dbg"], ub["dbg"], float(ua["scale"] / ub["scale"]), ra, rb, ua["prefix"], ub["prefix"]))
                    part.cell(b, key, ua["dbg"], ub["dbg"], "prefix_consistency")
    part.counters["units_main_crate"] = n_units["quantities"]
    part.counters["units_astro"] = n_units["astro"]
    part.sample({"backend": b, "type": "Length", "unit": "Mile", "observed": next((u for u in reg["Length"]["units"] if u["dbg"] == "Mile"), None),
                 "expectation": "name Mile, symbol mi, no prefix, scale 8*10*22*3*12*2.54/100 = 1609.344 exactly"}, limit=1)
    return part


def judge(part, case, resps, ctx):
    # replay: re-dump and re-judge everything for that back-end
    p2 = work({"backend": ctx["backend"], "reg": ctx["env"]["reg"], "seed": 0})
    part.merge(p2)
