"""Check framework: building executors, running cases, verdicts, evidence, known findings."""
import os, sys, json, time, subprocess, traceback, hashlib, shutil, fcntl
import multiprocessing as mp
from fractions import Fraction
import common
from common import VERIF, REPO, OUT, WORK, HARNESS, EVIDENCE, NCPU

ENV = dict(os.environ, CARGO_NET_OFFLINE="true", CARGO_TERM_COLOR="never", RUSTFLAGS=os.environ.get("RUSTFLAGS", ""))
TYPE_ERRS = {"E0277", "E0308", "E0369", "E0599", "E0271", "E0282", "E0283", "E0053", "E0061", "E0614", "E0600", "E0608"}
BUILD_TIMEOUT = 1800
EXEC_TIMEOUT = 1800


DEFERRED_INCONCLUSIVE = []     # reasons collected while preparing (a lane that could not be built); reported by finish()


class Inconclusive(Exception):
    pass


class ExecCrash(Exception):
    """The executor process died (signal / abort) while executing one particular request."""

    def __init__(self, index, request, how):
        super().__init__("executor died (%s) on request %d" % (how, index))
        self.index = index
        self.request = request
        self.how = how


class BuildViolation(Exception):
    def __init__(self, msg, log):
        super().__init__(msg)
        self.log = log


def backends_for(bin_name=None):
    return ["f64", "dec"]


def target_dir(backend, profile="dev"):
    return os.path.join(WORK, "target-" + backend)


def _cargo(args, cwd, target, timeout=BUILD_TIMEOUT, json_msgs=False):
    env = dict(ENV, CARGO_TARGET_DIR=target)
    cmd = ["cargo"] + args + ["--offline"]
    if json_msgs:
        cmd += ["--message-format=json"]
    try:
        p = subprocess.run(cmd, cwd=cwd, env=env, capture_output=True, text=True, timeout=timeout)
    except subprocess.TimeoutExpired:
        raise Inconclusive("cargo timed out: " + " ".join(cmd))
    return p


def ensure_lock():
    common.ensure_alt_harness()
    lock = os.path.join(HARNESS, "Cargo.lock")
    if not os.path.exists(lock):
        shutil.copy(os.path.join(REPO, "Cargo.lock"), lock)


def parse_diags(stdout):
    diags = []
    for line in stdout.splitlines():
        if not line.startswith("{"):
            continue
        try:
            m = json.loads(line)
        except ValueError:
            continue
        if m.get("reason") != "compiler-message":
            continue
        msg = m["message"]
        spans = [s for s in msg.get("spans", []) if s.get("is_primary")]
        diags.append({"level": msg.get("level"), "code": (msg.get("code") or {}).get("code"),
                      "message": msg.get("message"), "target": m.get("target", {}).get("name"),
                      "file": spans[0]["file_name"] if spans else None,
                      "line": spans[0]["line_start"] if spans else None,
                      "line_end": spans[0]["line_end"] if spans else None,
                      "rendered": msg.get("rendered")})
    return diags


def repo_builds(backend):
    feats = "doc,serde" + (",fpdec" if backend == "dec" else "")
    p = _cargo(["check", "--features", feats], REPO, os.path.join(WORK, "target-repocheck-" + backend))
    return p.returncode == 0, p.stderr[-4000:]


_built = {}


def build_bins(backend, bins, profile="dev", nostd=False):
    """Builds the named executor bins for a back-end from /repo's working tree.
    Returns {bin: path}. Raises Inconclusive or BuildViolation.
    nostd: the library is built without its "std" feature (the executor itself remains a std program)."""
    ensure_lock()
    os.makedirs(WORK, exist_ok=True)
    key = (backend, tuple(sorted(bins)), profile, nostd)
    if key in _built:
        return _built[key]
    target = target_dir(backend) + ("-nostd" if nostd else "")
    feats = "fpdec" if backend == "dec" else "astro"
    args = ["build", "--features", feats]
    if nostd:
        args = ["build", "--no-default-features"] + (["--features", "fpdec"] if backend == "dec" else [])
    if profile == "release":
        args.append("--release")
    for b in bins:
        args += ["--bin", b]
    p = _cargo(args, HARNESS, target)
    if p.returncode != 0:
        # diagnose
        ok, err = repo_builds(backend)
        if not ok:
            raise Inconclusive("/repo does not build (%s): %s" % (backend, err[-600:]))
        p2 = _cargo(args, HARNESS, target, json_msgs=True)
        diags = [d for d in parse_diags(p2.stdout) if d["level"] == "error"]
        os.makedirs(os.path.join(OUT, "replay"), exist_ok=True)
        log = os.path.join(OUT, "replay", "build-%s-%s.json" % (backend, "-".join(bins)))
        with open(log, "w") as f:
            json.dump({"kind": "build", "backend": backend, "bins": bins, "diagnostics": diags, "stderr": p.stderr[-8000:]}, f, indent=1)
        def typeish(d):
            # besides type errors: an item that the macro should have generated from a definition the HARNESS owns
            # (src/synth.rs: variants, constants, unit types of the synthetic quantities) can no longer be named
            if d["code"] is None and (d["file"] or "").endswith("src/synth.rs"):
                return True          # the macro itself rejects a well-formed synthetic definition (proc-macro error, no code)
            return d["code"] in TYPE_ERRS or (d["code"] in ("E0425", "E0412", "E0433", "E0531") and "synth" in (d["message"] or ""))
        in_harness = [d for d in diags if typeish(d) and d["file"] and not os.path.isabs(d["file"])]
        if in_harness and all(typeish(d) for d in diags if d["code"]):
            raise BuildViolation("executor %s no longer type-checks against /repo (%s): %s" % (
                ",".join(bins), backend, in_harness[0]["message"][:300]), log)
        raise Inconclusive("executor build failed (%s): %s" % (backend, p.stderr[-800:]))
    sub = "release" if profile == "release" else "debug"
    res = {b: os.path.join(target, sub, b) for b in bins}
    _built[key] = res
    return res


def run_exec(path, requests, timeout=EXEC_TIMEOUT, _locate=True):
    """Feeds the requests (dicts; 'id' is assigned here) to an executor; returns responses in order."""
    lines = []
    for i, r in enumerate(requests):
        r = dict(r)
        r["id"] = i
        lines.append(json.dumps(r, ensure_ascii=False))
    data = ("\n".join(lines) + "\n").encode("utf-8")
    # generous watchdog: executors answer ~1e5 requests per second
    budget = min(timeout, 40 + 0.004 * len(requests))
    try:
        p = subprocess.run([path], input=data, capture_output=True, timeout=budget)
    except subprocess.TimeoutExpired:
        if _locate:
            idx = _locate_hang(path, requests)
            if idx is not None:
                raise ExecCrash(idx, requests[idx], "no answer within %d s in 3 attempts on its own, while other requests take microseconds: non-termination" % HANG_SINGLE_S)
        raise Inconclusive("executor watchdog fired after %.0f s: %s" % (budget, path))
    if p.returncode != 0:
        err = p.stderr[-500:].decode("utf-8", "replace")
        died = p.returncode < 0 or "overflowed its stack" in err or "fatal runtime error" in err or p.returncode in (134, 139)
        if died and _locate and len(requests) >= 1:
            how = ("signal %d" % -p.returncode) if p.returncode < 0 else ("exit %d" % p.returncode)
            if "overflowed its stack" in err:
                how += ", stack overflow"
            idx = _locate_crash(path, requests, timeout)
            if idx is not None:
                raise ExecCrash(idx, requests[idx], how)
        raise Inconclusive("executor %s exited with %s: %s" % (os.path.basename(path), p.returncode, err))
    out = p.stdout.decode("utf-8").splitlines()
    if len(out) != len(requests):
        raise Inconclusive("protocol desync: %d requests, %d responses" % (len(requests), len(out)))
    resps = []
    for i, l in enumerate(out):
        r = json.loads(l)
        if r.get("id") != i:
            raise Inconclusive("protocol desync at %d" % i)
        if isinstance(r.get("panic"), str) and r["panic"].startswith("HARNESS:"):
            raise Inconclusive("harness error: " + r["panic"])
        resps.append(r)
    return resps


HANG_SINGLE_S = 15


def _hangs(path, requests, budget):
    lines = [json.dumps(dict(r, id=i), ensure_ascii=False) for i, r in enumerate(requests)]
    try:
        subprocess.run([path], input=("\n".join(lines) + "\n").encode("utf-8"), capture_output=True, timeout=budget)
        return False
    except subprocess.TimeoutExpired:
        return True


def _locate_hang(path, requests):
    """Index of a request that reproducibly never returns (bisection over prefixes), else None."""
    budget = lambda n: 4 + 0.002 * n
    lo, hi = 0, len(requests)
    if not _hangs(path, requests, budget(hi)):
        return None
    while hi - lo > 1:
        mid = (lo + hi) // 2
        if _hangs(path, requests[:mid], budget(mid)):
            hi = mid
        else:
            lo = mid
    idx = hi - 1
    for _ in range(3):
        if not _hangs(path, [requests[idx]], HANG_SINGLE_S):
            return None
    return idx


def _crashes(path, requests, timeout):
    try:
        run_exec(path, requests, timeout, _locate=False)
        return False
    except Inconclusive:
        return True


def _locate_crash(path, requests, timeout):
    """Smallest prefix of the request list that kills the executor -> index of the culprit
    (requests are independent and the executors are deterministic). None if not reproducible."""
    if not _crashes(path, requests, timeout):
        return None
    lo, hi = 0, len(requests)          # invariant: prefix[:lo] survives, prefix[:hi] dies
    while hi - lo > 1:
        mid = (lo + hi) // 2
        if _crashes(path, requests[:mid], timeout):
            hi = mid
        else:
            lo = mid
    idx = hi - 1
    # the culprit must also die on its own
    return idx if _crashes(path, [requests[idx]], timeout) else None


# ---------------------------------------------------------------------------
# partial results (returned by workers) and the final verdict

class Part:
    """Accumulates what one worker observed."""

    def __init__(self):
        self.evals = 0
        self.counters = {}
        self.cells = set()
        self.violations = []      # dicts: sig, text, replay
        self.samples = []
        self.max_ratio = 0.0
        self.max_ratio_case = None
        self.inconclusive = []
        self.notes = []

    def count(self, k, n=1):
        self.counters[k] = self.counters.get(k, 0) + n

    def cell(self, *key):
        self.cells.add("|".join(str(k) for k in key))

    def ratio(self, r, case=None):
        r = float(r)
        if r > self.max_ratio:
            self.max_ratio = r
            self.max_ratio_case = case

    def violation(self, sig, text, replay):
        self.violations.append({"sig": sig, "text": text, "replay": replay})

    def sample(self, obj, limit=3):
        if len(self.samples) < limit:
            self.samples.append(obj)

    def merge(self, o):
        self.evals += o.evals
        for k, v in o.counters.items():
            self.counters[k] = self.counters.get(k, 0) + v
        self.cells |= o.cells
        self.violations.extend(o.violations)
        for s in o.samples:
            if len(self.samples) < 12:
                self.samples.append(s)
        if o.max_ratio > self.max_ratio:
            self.max_ratio = o.max_ratio
            self.max_ratio_case = o.max_ratio_case
        self.inconclusive.extend(o.inconclusive)
        self.notes.extend(o.notes)


def _worker(args):
    fn_mod, fn_name, task = args
    try:
        mod = __import__(fn_mod)
        fn = getattr(mod, fn_name)
        return fn(task)
    except Inconclusive as e:
        p = Part()
        p.inconclusive.append(str(e))
        return p
    except Exception:
        p = Part()
        p.inconclusive.append("worker crashed: " + traceback.format_exc()[-1500:])
        return p


def run_tasks(mod_name, fn_name, tasks, nproc):
    """Runs worker fn(task)->Part over tasks on nproc processes; returns the merged Part."""
    total = Part()
    if not tasks:
        return total
    args = [(mod_name, fn_name, t) for t in tasks]
    if nproc <= 1 or len(tasks) == 1:
        for a in args:
            total.merge(_worker(a))
        return total
    with mp.Pool(min(nproc, len(tasks))) as pool:
        for part in pool.imap_unordered(_worker, args, chunksize=1):
            total.merge(part)
    return total


def load_known():
    p = os.path.join(VERIF, "known_findings.json")
    if not os.path.exists(p):
        return []
    with open(p, encoding="utf-8") as f:
        return json.load(f).get("findings", [])


def sig_matches(entry_sig, sig):
    return all(sig.get(k) == v for k, v in entry_sig.items())


def jsonable(o):
    if isinstance(o, Fraction):
        return "%d/%d" % (o.numerator, o.denominator) if o.denominator != 1 else str(o.numerator)
    if isinstance(o, (set, frozenset)):
        return sorted(jsonable(x) for x in o)
    if isinstance(o, dict):
        return {str(k): jsonable(v) for k, v in o.items()}
    if isinstance(o, (list, tuple)):
        return [jsonable(x) for x in o]
    if isinstance(o, float) and (o != o or o in (float("inf"), float("-inf"))):
        return str(o)
    return o


def finish(pid, tier, seed, part, t0, rule, nontrivial_count=None, exhaustive=None, assumptions=None,
           extra=None, min_evals=1, level="exploration"):
    """Prints verdict lines, writes evidence, returns the exit code."""
    known = [k for k in load_known() if k.get("property") == pid and k.get("status") == "known"]
    os.makedirs(os.path.join(OUT, "replay"), exist_ok=True)
    os.makedirs(EVIDENCE, exist_ok=True)
    classes = {}
    known_hits = {}
    for v in part.violations:
        hit = None
        for k in known:
            if sig_matches(k["signature"], v["sig"]):
                hit = k
                break
        if hit is not None:
            known_hits.setdefault(hit["id"], [hit, 0])
            known_hits[hit["id"]][1] += 1
            continue
        ck = json.dumps(jsonable(v["sig"].get("class", v["sig"])), sort_keys=True, ensure_ascii=False)
        classes.setdefault(ck, []).append(v)
    for kid, (k, cnt) in sorted(known_hits.items()):
        print("KNOWN-FINDING: property=%s %s (id=%s, observed %d times)" % (pid, k["text"], kid, cnt))
    n_viol = 0
    for i, (ck, vs) in enumerate(sorted(classes.items())):
        n_viol += len(vs)
        if i >= 20:
            continue
        v = vs[0]
        rp = os.path.join(OUT, "replay", "%s-%s-%02d.json" % (pid, tier, i))
        with open(rp, "w", encoding="utf-8") as f:
            json.dump(jsonable({"property": pid, "seed": seed, "signature": v["sig"], "text": v["text"],
                                "instances_in_class": len(vs), "replay": v["replay"]}), f, ensure_ascii=False, indent=1)
        print("VIOLATION property=%s replay=%s" % (pid, rp))
        print("  " + v["text"][:600])
    kinds = {}
    for vs in classes.values():
        for v in vs:
            kk = "%s/%s" % (v["sig"].get("kind"), v["sig"].get("backend"))
            kinds[kk] = kinds.get(kk, 0) + 1
    if kinds:
        print("  violation kinds: " + ", ".join("%s=%d" % kv for kv in sorted(kinds.items())))
        shown = set()
        for vs in classes.values():
            for v in vs:
                kk = "%s/%s" % (v["sig"].get("kind"), v["sig"].get("backend"))
                if kk not in shown and len(shown) < 16:
                    shown.add(kk)
                    print("  e.g. [%s] %s" % (kk, v["text"][:420]))
    inconclusive = list(part.inconclusive) + list(DEFERRED_INCONCLUSIVE)
    if part.evals < min_evals and not n_viol:
        inconclusive.append("only %d evaluations observed (floor %d)" % (part.evals, min_evals))
    wall = time.time() - t0
    nt = len(part.cells) if nontrivial_count is None else nontrivial_count
    cov = {"evaluations": int(part.evals), "distinct_nontrivial": int(nt), "rule": rule,
           "samples": jsonable(part.samples[:8]) or ["<none>"],
           "counters": jsonable(part.counters), "max_err_over_tol": round(part.max_ratio, 6),
           "max_err_over_tol_case": jsonable(part.max_ratio_case),
           "known_findings_observed": {kid: cnt for kid, (k, cnt) in known_hits.items()},
           "violation_kinds": kinds, "inconclusive": inconclusive, "notes": part.notes[:20],
           "repo": common.repo_fingerprint(), "workers": NCPU}
    if exhaustive is not None:
        cov["exhaustive"] = bool(exhaustive)
    if extra:
        cov.update(jsonable(extra))
    ev = {"property_id": pid, "tier": tier, "seed": int(seed), "level": level, "coverage": cov,
          "assumptions": assumptions or [], "wall_s": round(wall, 2), "violations": int(n_viol)}
    with open(os.path.join(EVIDENCE, pid + ".json"), "w", encoding="utf-8") as f:
        json.dump(ev, f, ensure_ascii=False, indent=1)
    if n_viol:
        print("RESULT property=%s violated: %d violating cases in %d classes (%.1fs)" % (pid, n_viol, len(classes), wall))
        return 1
    if inconclusive:
        for r in inconclusive[:5]:
            print("INCONCLUSIVE property=%s reason=%s" % (pid, r.replace("\n", " ")[:500]))
        return 2
    print("RESULT property=%s held on %d evaluations, %d distinct non-trivial cells, max_err_over_tol=%.3f (%.1fs)" % (
        pid, part.evals, nt, part.max_ratio, wall))
    return 0


def build_violation_exit(pid, tier, seed, e, t0):
    part = Part()
    part.violation({"class": {"kind": "build", "msg": str(e)[:200]}}, str(e), {"kind": "build", "log": e.log})
    part.evals = 1
    return finish(pid, tier, seed, part, t0, "executor build against /repo", nontrivial_count=2)


def run_cases(part, bin_path, cases, judge, jctx, chunk=40000):
    """Executes the requests of all cases through one executor process per chunk and judges each case."""
    i = 0
    marker = os.path.join(OUT, "hang-%s" % os.environ.get("VERIF_RUN_ID", "0"))
    while i < len(cases):
        if os.path.exists(marker):
            # another worker of this run already located a request that never returns: the verdict is decided,
            # do not spend minutes per task rediscovering it
            part.count("cases_skipped_after_located_hang", len(cases) - i)
            return
        sub = cases[i:i + chunk]
        i += chunk
        reqs = []
        spans = []
        for c in sub:
            spans.append((len(reqs), len(c["reqs"])))
            reqs.extend(c["reqs"])
        crashes = 0
        while True:
            try:
                resps = run_exec(bin_path, reqs)
                break
            except ExecCrash as e:
                # the process died inside one request: that operation did not return - a violation of the
                # property whose workload this is; drop the case and go on with the others
                crashes += 1
                if "non-termination" in e.how:
                    os.makedirs(OUT, exist_ok=True)
                    open(marker, "w").write(json.dumps(e.request))
                ci = next(i for i, (o, n) in enumerate(spans) if o <= e.index < o + n)
                c = sub[ci]
                part.evals += 1
                kind = "non_termination" if "non-termination" in e.how else "process_abort"
                sig = {"kind": kind, "backend": jctx.get("backend"), "op": e.request.get("op"),
                       "class": {"kind": kind, "backend": jctx.get("backend"), "op": e.request.get("op"),
                                 "where": e.request.get("ty") or [e.request.get("l"), e.request.get("o"), e.request.get("r")]}}
                part.violation(sig, "%s: the executor process died (%s) while executing %s - the operation neither returned nor panicked" % (
                    str(jctx.get("module", "")).upper(), e.how, {k: v for k, v in e.request.items() if k != "table"}),
                    {"module": jctx.get("module"), "backend": jctx.get("backend"), "bin": os.path.basename(bin_path), "case": dict(c, reqs=[e.request])})
                if "non-termination" in e.how:
                    return
                if crashes > 12:
                    raise Inconclusive("executor keeps dying (more than 12 crashing requests in one chunk)")
                del sub[ci]
                reqs, spans = [], []
                for cc in sub:
                    spans.append((len(reqs), len(cc["reqs"])))
                    reqs.extend(cc["reqs"])
                if not sub:
                    resps = []
                    break
        nostd = os.path.basename(os.path.dirname(os.path.dirname(bin_path))).endswith("-nostd")
        for c, (o, n) in zip(sub, spans):
            nv = len(part.violations)
            judge(part, c, resps[o:o + n], jctx)
            if nostd:
                # second executor build: the library without its "std" feature (DESIGN 8.2)
                part.count("cases_on_no_std_build")
                for v in part.violations[nv:]:
                    v["sig"]["lib"] = "no_std"
                    if isinstance(v["sig"].get("class"), dict):
                        v["sig"]["class"]["lib"] = "no_std"
                    v["text"] = "[library built without std] " + v["text"]
                    if isinstance(v.get("replay"), dict):
                        v["replay"]["bin"] = os.path.basename(bin_path) + "_nostd"
