#!/usr/bin/env python3
"""Evaluate a seeded change against the checks.
usage: tools/seed_eval.py <seed-id> <property> [--from <worktree>/MUTATION_X] [--checks C01,C08] [--tier quick|thorough|both] [--confirm "<text>"]
Copies patch/demo/readme into /verif/seeded/<seed-id>/ (when --from is given), applies the patch to a scratch
worktree of /repo (/tmp/seedrepo, removed afterwards), runs the checks against it (VERIF_REPO; own caches and
evidence under .work/alt-*, so /repo, its caches and /verif/evidence are never touched), records the verdicts in
meta.json. With --in-place the patch is applied to /repo itself (git apply / git checkout -- .) instead."""
import sys, os, json, subprocess, shutil, argparse, time, re
VERIF = os.path.dirname(os.path.dirname(os.path.abspath(__file__)))
REPO = "/repo"


def sh(cmd, **kw):
    return subprocess.run(cmd, shell=True, capture_output=True, text=True, **kw)


def main():
    ap = argparse.ArgumentParser()
    ap.add_argument("sid"); ap.add_argument("prop")
    ap.add_argument("--from", dest="src"); ap.add_argument("--checks"); ap.add_argument("--tier", default="quick")
    ap.add_argument("--confirm", default=""); ap.add_argument("--needs", default="")
    ap.add_argument("--in-place", action="store_true")
    a = ap.parse_args()
    d = os.path.join(VERIF, "seeded", a.sid)
    os.makedirs(d, exist_ok=True)
    if a.src:
        for f in ("patch.diff", "demo.rs", "README.md"):
            if os.path.exists(os.path.join(a.src, f)):
                shutil.copy(os.path.join(a.src, f), os.path.join(d, f if f != "README.md" else "author_notes.md"))
    meta_p = os.path.join(d, "meta.json")
    meta = json.load(open(meta_p)) if os.path.exists(meta_p) else {}
    meta.update({"id": a.sid, "breaks_property": a.prop})
    if a.needs:
        meta["needs_to_manifest"] = a.needs
    if a.confirm:
        meta["confirmation"] = a.confirm
    checks = (a.checks or a.prop).split(",")
    global REPO
    env = dict(os.environ)
    if not a.in_place:
        wt = os.environ.get("SEED_WT", "/tmp/seedrepo")      # several evaluations may run side by side on different worktrees
        if not os.path.exists(wt):
            sh("git -C /repo worktree add -q --detach %s HEAD" % wt)
        sh("git -C %s checkout -q --detach %s" % (wt, sh("git -C /repo rev-parse HEAD").stdout.strip()))
        sh("git -C %s checkout -q -- ." % wt)
        REPO = wt
        env["VERIF_REPO"] = wt
    st = sh("git -C %s status --porcelain" % REPO).stdout.strip()
    if st:
        print("refusing: %s is not clean:\n" % REPO + st); return 2
    r = sh("git -C %s apply %s" % (REPO, os.path.join(d, "patch.diff")))
    if r.returncode != 0:
        print("patch does not apply:", r.stderr); return 2
    runs = meta.setdefault("runs", [])
    try:
        tiers = ["quick", "thorough"] if a.tier == "both" else [a.tier]
        for c in checks:
            for tier in tiers:
                t0 = time.time()
                p = sh("cd %s && timeout 5400 ./check %s --tier %s" % (VERIF, c, tier), env=env)
                kinds = re.findall(r"violation kinds: (.*)", p.stdout)
                first = re.findall(r"e\.g\. \[[^\]]*\] (.*)", p.stdout)
                res = {"check": c, "tier": tier, "exit": p.returncode, "wall_s": round(time.time() - t0, 1),
                       "violation_kinds": kinds[0] if kinds else None, "example": first[0][:400] if first else None,
                       "result_line": (re.findall(r"^(RESULT.*|INCONCLUSIVE.*)$", p.stdout, re.M) or [""])[0][:300]}
                runs[:] = [x for x in runs if not (x["check"] == c and x["tier"] == tier)] + [res]
                print("%s %s %s exit=%s %.0fs %s" % (a.sid, c, tier, p.returncode, res["wall_s"], (kinds[0] if kinds else res["result_line"])[:200]))
                if p.returncode == 1 and c == a.prop:
                    break
    finally:
        sh("git -C %s checkout -- ." % REPO)
        sh("git -C %s clean -fdq -- tests" % REPO)
        if not a.in_place:
            sh("git -C %s clean -fdq -e target" % REPO)          # files a patch added outside tests/ (scratch worktree only)
    meta["caught_by"] = sorted(set(x["check"] + ":" + x["tier"] for x in runs if x["exit"] == 1))
    meta["caught_by_own_property"] = any(x["exit"] == 1 and x["check"] == a.prop for x in runs)
    json.dump(meta, open(meta_p, "w"), indent=1, ensure_ascii=False)
    return 0


if __name__ == "__main__":
    sys.exit(main())
