#!/bin/bash
# usage: tools/confirm_mutation.sh <worktree> <A|B> [demo features...]
# Confirms in the scratch worktree: compiles (both back-ends), pinned tests unchanged, demo fails with / passes without.
wt=$1; x=$2; shift 2
feats=("$@"); [ ${#feats[@]} -eq 0 ] && feats=("doc,serde" "doc,serde,fpdec")
lx=$(echo $x | tr 'A-Z' 'a-z')
export CARGO_NET_OFFLINE=true
cd $wt || exit 9
git checkout -q -- . ; rm -f tests/demo_*.rs
git apply MUTATION_$x/patch.diff || { echo "RESULT apply_failed"; exit 1; }
b1=$(cargo build --offline --features doc,serde 2>&1 | tail -1)
b2=$(cargo build --offline --features doc,serde,fpdec 2>&1 | tail -1)
b3=$(cargo build --offline -p astronomical-quantities 2>&1 | tail -1)
t=$(cargo test --workspace --no-fail-fast --offline 2>&1 | grep -E "^test result" | awk '{p+=$4; f+=$6} END {print p" passed "f" failed"}')
cp MUTATION_$x/demo.rs tests/demo_$lx.rs
with=""; without=""
for f in "${feats[@]}"; do
  r=$(cargo test --offline --features $f --test demo_$lx 2>&1 | sed 's/\x1b\[[0-9;]*m//g' | grep -E "^test result|^error: could not compile|^error: test failed|^error\[E[0-9]+\]" | head -2 | tr '\n' ' ')
  with="$with [$f: $r]"
done
git checkout -q -- .
for f in "${feats[@]}"; do
  r=$(cargo test --offline --features $f --test demo_$lx 2>&1 | sed 's/\x1b\[[0-9;]*m//g' | grep -E "^test result|^error: could not compile|^error: test failed|^error\[E[0-9]+\]" | head -2 | tr '\n' ' ')
  without="$without [$f: $r]"
done
rm -f tests/demo_$lx.rs
echo "BUILD f64: $b1 | dec: $b2 | astro: $b3"
echo "PINNED TESTS with mutation: $t   (clean tree: 77 passed 1 failed incl. doctests)"
echo "DEMO with mutation:$with"
echo "DEMO clean tree:   $without"
