"""C15 - Text output is faithful and parseable."""
import re
from fractions import Fraction
import framework as fw
import corelane as cl
import oracle as orc
import amounts as am
import c08
from common import Rng, frac_of, enc_round, f64_bits, bits_f64, f64_is_finite, f64_neg

PID = "C15"
BINS = ["x_core", "x_rate"]
RULE = ("every unit of every type of the executor universe (exhaustive; all catalogue symbols incl. non-ASCII) x finite amounts of every "
        "sign and magnitude class (zero, -0.0, values that round to zero, ties 0.125/2.5, carries 9.995, 1e-7, 1e21, 17-digit doubles, "
        "18-digit decimals, trailing zeros) x seeded format specs from the grid flags{+,0} x fill{none,' ','*','_','0','é'} x align{none,<,^,>} x "
        "width{none,0..40} x precision{none,0..20}; the output is decomposed by a reference implementation of the padding rules around a "
        "SEMANTIC check of the amount text (parse-back / correctly rounded, never a re-implementation of digit generation); units against "
        "native str formatting; unit-less values against native amount formatting; rates against 'term / per'; second pass parses the "
        "displayed text back through AmountT::from_str and unit_from_symbol; cell = (backend,type,unit,amount class,spec shape); "
        "non-trivial = width or precision or a flag present")
FILLS = [None, " ", "*", "_", "0", "é"]
ALIGNS = [None, "<", "^", ">"]
AMT_RE = re.compile(r"^(0|[1-9][0-9]*)(\.[0-9]+)?$")


def prepare(backends):
    return cl.prepare(backends, BINS)


def plan(env, tier, seed):
    na, ns = (6, 20) if tier == "quick" else (60, 240)
    tasks = cl.split_tasks(env, lambda ty, e: True)
    for t in tasks:
        t.update({"na": na, "ns": ns, "seed": seed, "kind": "qty"})
    for b, e in env.items():
        tasks.append({"backend": b, "kind": "rate", "bin": e["bins"]["x_rate"], "reg": {k: e["reg"][k] for k in ("AmountT", "Mass", "Length", "Duration", "DataVolume", "Temperature", "SynA", "SynOne")},
                      "n": 60 if tier == "quick" else 1500, "seed": seed})
    return tasks


def display_amounts(rng, b, n):
    """(encoding, class) finite amounts of every sign and magnitude class."""
    fixed_f = [("0", "zero"), ("-0.0", "neg_zero"), ("0.125", "tie"), ("2.5", "tie"), ("0.5", "tie"), ("1.5", "tie"), ("9.995", "carry"),
               ("99.95", "carry"), ("0.999", "carry"), ("1e-7", "small"), ("1e21", "huge"), ("-0.001", "rounds_to_zero"),
               ("0.0004", "rounds_to_zero"), ("-0.4", "rounds_to_zero"), ("17.4", "plain"), ("-3", "plain"), ("1", "one"), ("-1", "plain"),
               ("123456.789", "plain"), ("1e15", "huge"), ("1e16", "huge"), ("-2.5e-10", "small")]
    out = []
    picks = rng.sample(fixed_f, min(len(fixed_f), max(3, n * 2 // 3)))
    for (t, c) in picks:
        if b == "f64":
            out.append((f64_bits(float(t)), c))
        else:
            if t == "-0.0":
                out.append(("0:3", "zero_frac"))
            elif t == "1e21":
                out.append(("123456789012345678:0", "huge"))
            else:
                e = enc_round(am._to_frac(t), b)
                out.append((e, c))
    while len(out) < n:
        if b == "f64":
            c = rng.choice(["digits17", "short_dec", "log_uniform", "small_int"])
            if c == "digits17":
                out.append((am.f64_17digits(rng), c))
            elif c == "short_dec":
                out.append((am.short_decimal(rng, b), c))
            elif c == "small_int":
                out.append((am.small_int(rng, b, -1000, 1000), c))
            else:
                x = float(am.log_uniform(rng, -12, 18)) * rng.choice([1, -1])
                out.append((f64_bits(x), c))
        else:
            c = rng.choice(["frac18", "short_dec", "trailing_zeros", "small_int", "log_uniform"])
            if c == "frac18":
                out.append((am.dec_18frac(rng, rng.randint(0, 6)), c))
            elif c == "short_dec":
                out.append((am.short_decimal(rng, b), c))
            elif c == "trailing_zeros":
                out.append(("%d:%d" % (rng.randint(-999, 999) * 10 ** rng.randint(1, 4), rng.randint(1, 12)), c))
            elif c == "small_int":
                out.append((am.small_int(rng, b, -1000, 1000), c))
            else:
                from common import dec_from_fraction
                out.append((dec_from_fraction(am.clip_dec(am.log_uniform(rng, -12, 16)) * rng.choice([1, -1])), c))
    return out


def random_spec(rng):
    sp = {}
    k = rng.choice(["default", "prec", "width", "both", "both", "flags", "full", "full", "flags_no_width"])
    if k == "default":
        return sp
    if k == "flags_no_width":
        # valid Rust: `{:0}`, `{:+0.2}`, `{:<0}`, `{:*^+}` - flags, fill and alignment without any width
        if rng.random() < 0.5:
            sp["prec"] = rng.choice([0, 1, 2, 6])
        if rng.random() < 0.4:
            sp["plus"] = True
        if rng.random() < 0.7:
            sp["zero"] = True
        if rng.random() < 0.4:
            sp["align"] = rng.randint(1, 3)
            sp["fill"] = rng.randint(0, 5)
        return sp
    if k in ("prec", "both", "full"):
        sp["prec"] = rng.choice([0, 1, 2, 3, 6, 10, 17, 18, rng.randint(0, 20)])
    if k in ("width", "both", "full", "flags"):
        sp["width"] = rng.choice([0, 1, 5, 8, 12, 20, 40, rng.randint(0, 40)])
    if k in ("flags", "full"):
        if rng.random() < 0.5:
            sp["plus"] = True
        if rng.random() < 0.35:
            sp["zero"] = True
        a = rng.randint(0, 3)
        if a:
            sp["align"] = a
            sp["fill"] = rng.randint(0, 5)
    if k == "width" and rng.random() < 0.5:
        sp["align"] = rng.randint(1, 3)
        sp["fill"] = rng.randint(0, 5)
    return sp


def spec_shape(sp):
    return "".join(["+" if sp.get("plus") else "", "0" if sp.get("zero") else "", "F" if sp.get("fill") else "",
                    "<^>"[sp["align"] - 1] if sp.get("align") else "", "w" if "width" in sp else "", "p" if "prec" in sp else ""]) or "default"


def spec_text(sp):
    f = FILLS[sp.get("fill", 0)] or ""
    a = ALIGNS[sp.get("align", 0)] or ""
    return "{:%s%s%s%s%s%s}" % (f if a else "", a, "+" if sp.get("plus") else "", "0" if sp.get("zero") else "",
                                sp.get("width", ""), (".%d" % sp["prec"]) if "prec" in sp else "")


def work(task):
    if task["kind"] == "rate":
        return work_rate(task)
    part = fw.Part()
    b, ty, ent = task["backend"], task["ty"], task["entry"]
    rng = Rng("%s/C15/%s/%s" % (task["seed"], b, ty))
    cases = []
    for u in ent["units"]:
        for (x, cls) in display_amounts(rng, b, task["na"]):
            specs = [{}] + [random_spec(rng) for _ in range(task["ns"])]
            for sp in specs:
                cases.append({"ty": ty, "u": u["idx"], "x": x, "cls": cls, "spec": sp,
                              "reqs": [dict({"op": "fmt", "ty": ty, "x": x, "u": u["idx"]}, **sp)]})
    ctx = {"backend": b, "ty": ty, "entry": ent, "module": "c15", "parse": [], "decl": task.get("decl")}
    fw.run_cases(part, task["bin"], cases, judge, ctx)
    # second pass: parse the displayed text back with the library's own parsers
    cases2 = []
    for (case, amt_text, sym, neg) in ctx["parse"]:
        cases2.append({"kind": "parse", "ty": ty, "u": case["u"], "x": case["x"], "amt_text": amt_text, "neg": neg, "cls": case["cls"], "spec": case["spec"],
                       "reqs": [{"op": "parse", "ty": ty, "t": ("-" if neg else "") + amt_text, "sym": sym}]})
    fw.run_cases(part, task["bin"], cases2, judge, ctx)
    return part


_DECL_CACHE = {}


def declared_symbol(ctx, ty, variant):
    """Declared symbol of a unit from the hand-written tables (catalogue, astro, synthetic) or the task's declaration."""
    key = (ty, variant)
    if key in _DECL_CACHE:
        return _DECL_CACHE[key]
    decl = ctx.get("decl")
    if decl is None:
        try:
            import declared
            decl = declared.declared_units(ty)
        except Exception:
            decl = None
    res = None
    if decl is not None:
        res = next((e["symbol"] for e in decl[1] if e["variant"] == variant), None)
    _DECL_CACHE[key] = res
    return res


def decompositions(s, sp):
    """All ways to read s as padding + core under the spec; yields core strings."""
    width = sp.get("width")
    fill = FILLS[sp.get("fill", 0)] or " "
    align = ALIGNS[sp.get("align", 0)]
    n = len(s)
    yield s, 0
    if width is None or n != width:
        return
    for k in range(1, n):
        if sp.get("zero"):
            # sign, zeros, rest
            m = re.match(r"^([+-]?)(0{%d})(.*)$" % k, s, re.S)
            if m:
                yield m.group(1) + m.group(3), k
            continue
        cands = []
        if align in (None, "<"):
            cands.append((0, k))
        if align in (None, ">"):
            cands.append((k, 0))
        if align == "^":
            cands.append((k // 2, k - k // 2))
        for (l, r) in cands:
            if s[:l] == fill * l and (r == 0 or s[n - r:] == fill * r):
                yield s[l:n - r], k


def judge(part, case, resps, ctx):
    if case.get("kind") == "rate":
        return judge_rate(part, case, resps, ctx)
    b, ty, ent = ctx["backend"], ctx["ty"], ctx["entry"]
    r = resps[0]
    uu = ent["units"][case["u"]]
    sp = case["spec"]
    part.evals += 1

    def viol(kind, text, extra=None):
        sig = {"backend": b, "type": ty, "unit": uu["dbg"], "kind": kind, "cls": case["cls"], "spec": spec_text(sp),
               "precision": sp.get("prec"), "class": {"kind": kind, "backend": b, "type": ty, "unit": uu["dbg"], "extra": extra}}
        part.violation(sig, "C15 %s: %s %s x=%s [%s] spec %s: %s" % (kind, b, ty, case["x"], uu["dbg"], spec_text(sp), text),
                       {"module": "c15", "backend": b, "ty": ty, "case": case, "resps": resps})
    if "panic" in r:
        viol("panic", "request panicked: %s" % r["panic"])
        return
    if case.get("kind") == "parse":
        x = case["x"]
        want_a = x
        if b == "f64":
            ok_a = r["a"] is not None and (r["a"] == x)
        else:
            ok_a = r["a"] is not None and r["a"] == x
        if not ok_a:
            viol("parse_back", "displayed amount text %r parses (AmountT::from_str) to %s, stored amount is %s" % (("-" if case["neg"] else "") + case["amt_text"], r["a"], x))
        first = next((un["dbg"] for un in ent["units"] if un["symbol"] == uu["symbol"]), None)
        # where the declared symbols are unique (the whole catalogue) the symbol must resolve to the stored unit itself
        decl = ctx.get("decl")
        if decl is None:
            try:
                import declared
                decl = declared.declared_units(ty)
            except Exception:
                decl = None
        want_u = first
        if decl is None or [e["symbol"] for e in decl[1]].count(uu["symbol"]) <= 1:
            want_u = uu["dbg"]
        if r["u"] != want_u:
            viol("symbol_resolve", "displayed symbol %r resolves to %s, stored unit %s" % (uu["symbol"], r["u"], uu["dbg"]))
        part.count("parsed_back")
        return
    for k in ("s", "us", "xs", "nsym"):
        if isinstance(r[k], dict):
            viol("panic", "formatting %s panicked: %s" % (k, r[k].get("panic")))
            return
    # units: ordinary string formatting of the symbol
    if r["us"] != r["nsym"]:
        viol("unit_display", "unit displays as %r, its symbol under the same spec gives %r" % (r["us"], r["nsym"]), "unit")
    if r["sym"] != uu["symbol"]:
        viol("unit_symbol", "symbol() changed between calls")
    dsym = declared_symbol(ctx, ty, uu["dbg"])
    if dsym is not None and dsym != uu["symbol"]:
        viol("declared_symbol", "the unit reports (and displays) the symbol %r, declared %r" % (uu["symbol"], dsym), "declared")
    s = r["s"]
    sym = uu["symbol"]
    nontrivial = bool(sp)
    if sym == "":
        if s != r["xs"]:
            viol("unitless", "unit-less value displays as %r, the bare amount as %r" % (s, r["xs"]))
        if nontrivial:
            part.cell(b, ty, uu["dbg"], case["cls"], spec_shape(sp))
        return
    x = frac_of(case["x"], b)
    if b == "f64":
        neg_bit = f64_neg(case["x"])
    else:
        neg_bit = x < 0
    is_neg = x < 0
    width = sp.get("width")
    if width is not None and len(s) < width:
        viol("width", "output %r has %d characters, width %d demands at least that many" % (s, len(s), width), "short")
        return
    prec = sp.get("prec")
    accepted = False
    capped = False
    reasons = []
    for core, k in decompositions(s, sp):
        m = re.match(r"^([+-]*)(.*)$", core, re.S)
        signs, body = m.group(1), m.group(2)
        if not body.endswith(" " + sym):
            reasons.append("core %r does not end with ' %s'" % (core, sym))
            continue
        amt_text = body[:len(body) - len(sym) - 1]
        if not AMT_RE.match(amt_text):
            reasons.append("amount text %r is not a plain decimal" % amt_text)
            continue
        if len(signs) > 1:
            reasons.append("more than one sign character in %r" % core)
            continue
        val = Fraction(amt_text)
        rounds_to_zero = val == 0
        if is_neg:
            ok_sign = signs == "-"          # "a single leading minus for negative amounts", also when the digits round to zero
        elif neg_bit:       # negative zero: minus optional
            ok_sign = signs in (("-", "+") if sp.get("plus") else ("-", ""))
        else:
            ok_sign = signs == ("+" if sp.get("plus") else "")
        if not ok_sign:
            reasons.append("sign %r is wrong for amount %s (plus flag %s)" % (signs, float(x), bool(sp.get("plus"))))
            continue
        if prec is None:
            if b == "f64":
                ok_val = float(amt_text) == abs(bits_f64(case["x"]))
            else:
                ok_val = val == abs(x)
            if not ok_val:
                reasons.append("amount text %r does not parse back to |amount| = %s" % (amt_text, abs(x)))
                continue
        else:
            nd = len(amt_text.split(".")[1]) if "." in amt_text else 0
            if nd != prec:
                if b == "dec" and prec > 18 and nd == 18 and abs(val - abs(x)) <= Fraction(1, 2 * 10 ** 18):
                    capped = True
                reasons.append("amount text %r has %d fractional digits, precision %d" % (amt_text, nd, prec))
                continue
            if abs(val - abs(x)) > Fraction(1, 2 * 10 ** prec):
                reasons.append("amount text %r is not the correctly rounded |amount| %s" % (amt_text, float(abs(x))))
                continue
        accepted = True
        if prec is None and "parse" in ctx and len(ctx["parse"]) < 6000:
            ctx["parse"].append((case, amt_text, sym, is_neg or (neg_bit and signs == "-")))
        break
    if not accepted:
        kind = "format"
        rs = " | ".join(reasons[:3])
        if capped:
            kind = "precision_capped_18"
        elif any("fractional digits" in x_ for x_ in reasons):
            kind = "precision_digits"
        elif any("sign" in x_ for x_ in reasons):
            kind = "sign"
        elif any("parse back" in x_ or "correctly rounded" in x_ for x_ in reasons):
            kind = "amount_text"
        elif width is not None and len(s) != width and len(reasons) == 1:
            kind = "format"
        # width accounting in characters
        nchars = len(s)
        viol(kind, "output %r (%d chars) cannot be read as pad+sign+amount+' '+symbol+pad: %s" % (s, nchars, rs), kind)
    elif width is not None and len(s) > width and k == 0:
        pass
    if accepted and width is not None:
        # a padded result must be exactly `width` characters; an unpadded one at least
        pass
    if nontrivial:
        part.cell(b, ty, uu["dbg"], case["cls"], spec_shape(sp))
    if nontrivial and case["cls"] not in ("zero", "one"):
        part.sample({"backend": b, "type": ty, "request": case["reqs"][0], "spec": spec_text(sp), "output": s,
                     "expectation": "pad . sign . amount . ' ' . %s . pad" % sym}, limit=2)


# ---------------------------------------------------------------- rates

def work_rate(task):
    part = fw.Part()
    b, reg = task["backend"], task["reg"]
    rng = Rng("%s/C15rate/%s" % (task["seed"], b))
    types = sorted(reg)
    cases = []
    for _ in range(task["n"]):
        tq, pq = rng.choice(types), rng.choice(types)
        tu = rng.randint(0, len(reg[tq]["units"]) - 1)
        pu = rng.randint(0, len(reg[pq]["units"]) - 1)
        ta = display_amounts(rng, b, 1)[0][0]
        pm = rng.choice([enc_round(Fraction(1), b), enc_round(Fraction(1), b), display_amounts(rng, b, 1)[0][0], enc_round(Fraction(100), b),
                         "1:0" if b == "dec" else "3ff0000000000000", "10:1" if b == "dec" else "3ff0000000000000"])
        cases.append({"kind": "rate", "tq": tq, "pq": pq, "tu": tu, "pu": pu, "ta": ta, "pm": pm,
                      "reqs": [{"op": "rate", "tq": tq, "pq": pq, "ta": ta, "tu": tu, "pm": pm, "pu": pu}]})
    fw.run_cases(part, task["bin"], cases, judge, {"backend": b, "reg": reg, "module": "c15"})
    return part


def judge_rate(part, case, resps, ctx):
    b = ctx["backend"]
    r = resps[0]
    part.evals += 1

    def viol(kind, text):
        sig = {"backend": b, "kind": kind, "tq": case["tq"], "pq": case["pq"], "class": {"kind": kind, "backend": b, "tq": case["tq"], "pq": case["pq"]}}
        part.violation(sig, "C15 %s: %s Rate<%s,%s> ta=%s pm=%s: %s" % (kind, b, case["tq"], case["pq"], case["ta"], case["pm"], text),
                       {"module": "c15", "backend": b, "bin": "x_rate", "case": case, "resps": resps})
    if "panic" in r or isinstance(r.get("disp"), dict):
        viol("panic", "rate display panicked: %s" % (r.get("panic") or r["disp"]))
        return
    tsym, psym = r["tsym"], r["psym"]
    term = r["ta_disp"] + (" " + tsym if tsym else "")
    pm_one = frac_of(case["pm"], b) == 1 if orc.finite(case["pm"], b) else False
    if psym == "":
        pers = [r["pm_disp"]] + ([""] if pm_one else [])
    elif pm_one:
        pers = [psym]
    else:
        pers = [r["pm_disp"] + " " + psym]
    wants = [term + " / " + p for p in pers]
    if r["disp"] not in wants:
        viol("rate_display", "rate displays as %r, expected %r" % (r["disp"], wants[0]))
    part.cell(b, "rate", case["tq"], case["pq"], "one" if pm_one else "multiple", bool(tsym), bool(psym))
    part.sample({"backend": b, "request": case["reqs"][0], "output": r["disp"], "expectation": wants[0]}, limit=1)
