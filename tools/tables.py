"""Evaluation of the hand-written definition tables in exact rationals."""
import re
from fractions import Fraction
from common import load_table
import defgen

# pi to 60 digits
PI = Fraction("3.14159265358979323846264338327950288419716939937510582097494")

_num = re.compile(r"(?<![A-Za-z_.])(\d+(?:\.\d+)?)")


class _NS:
    def __init__(self, d):
        self.__dict__.update(d)


class Catalogue:
    """quantities: key -> entry; key = 'Mass' (main crate) or 'astro::Mass'."""

    def __init__(self):
        raw = load_table("catalogue.json")["quantities"]
        self.q = {}
        for e in raw:
            key = e["name"] if e["crate"] == "quantities" else "astro::" + e["name"]
            e = dict(e)
            e["key"] = key
            self.q[key] = e
        self._val = {}
        self._nonterm = {}
        for key in self.q:
            for u in self.q[key]["units"]:
                if u["def"] is not None:
                    self.value(key, u["ident"])

    def value(self, key, ident, _stack=()):
        k = (key, ident)
        if k in self._val:
            return self._val[k]
        if k in _stack:
            raise ValueError("cyclic definition %r" % (k,))
        e = self.q[key]
        u = next(x for x in e["units"] if x["ident"] == ident)
        if u["def"] is None:
            return None
        crate_prefix = "astro::" if key.startswith("astro::") else ""
        ns = {"pi": PI, "F": Fraction}

        def unit_getter(qkey):
            class G:
                def __getattr__(s, name):
                    return self.value(qkey, name, _stack + (k,))
            return G()
        for other in self.q:
            if other.startswith("astro::") == key.startswith("astro::"):
                ns[other.split("::")[-1]] = unit_getter(other)

        class Local(dict):
            def __missing__(s, name):
                return self.value(key, name, _stack + (k,))
        expr = _num.sub(lambda m: 'F("%s")' % m.group(1), u["def"])
        loc = Local(ns)
        v = eval(expr, {"__builtins__": {}}, loc)
        v = Fraction(v)
        self._val[k] = v
        self._nonterm[k] = ("pi" in u["def"]) or self._uses_pi(key, u["def"])
        return v

    def _uses_pi(self, key, expr):
        # transitive: any referenced unit whose own definition involves pi
        for (k2, ident), flag in list(self._nonterm.items()):
            if flag and re.search(r"(?<![A-Za-z_])%s(?![A-Za-z_])" % re.escape(ident), expr):
                if k2 == key or (k2.split("::")[-1] + "." + ident) in expr:
                    return True
        return False

    def involves_pi(self, key, ident):
        return self._nonterm.get((key, ident), False)

    def as_definition(self, key):
        """The catalogue entry in the shape used by defgen.expected_registry (scale values
        instead of literals are handled by the caller)."""
        return self.q[key]


def terminating(fr, max_frac=18):
    d = fr.denominator
    for p in (2, 5):
        while d % p == 0:
            d //= p
    if d != 1:
        return False
    # number of fractional digits
    n = 0
    x = fr
    while x.denominator != 1:
        x *= 10
        n += 1
    return n <= max_frac


def is_terminating_decimal(fr):
    d = fr.denominator
    for p in (2, 5):
        while d % p == 0:
            d //= p
    return d == 1


def frac_digits(fr):
    n = 0
    x = Fraction(fr)
    while x.denominator != 1:
        x *= 10
        n += 1
    return n
