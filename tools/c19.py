"""C19 - Every feature combination builds and is self-contained."""
import os, json, shutil, subprocess, hashlib
import multiprocessing as mp
import framework as fw
import proglane as pl
from common import WORK, REPO, HARNESS, NCPU

PID = "C19"
FEATURES = ["mass", "length", "duration", "area", "volume", "speed", "acceleration", "force", "energy", "power", "frequency",
            "datavolume", "datathroughput", "temperature"]
RULE = ("a probe crate with the same feature names (each forwarding only to quantities/<feature>) whose main, under cfg(feature), names the "
        "module, applies the declared derivation operators of that quantity and prints a fixed operation corpus (all unit pairs: conversion, "
        "comparison, + - /, formatting; Temperature and user-defined macro types - plain, without reference unit, product, square, quotient, "
        "reciprocal of the bare amount - present in EVERY configuration: all unit pairs incl. ties with panics captured) as events; built and run for the 14 features individually, all jointly and none x {std, no std} x "
        "{f64, Decimal} x {serde on, off}, plus 'all' and 'none' with only the LIBRARY's serde feature on (the crate using the macro has no "
        "serde dependency); quick = 16 sets in the default variant + the 8 variants of 'all' and 'none' + 4 library-serde-only (34 builds), "
        "thorough = all 128 + 8; plus a #![no_std] library crate that defines quantities of every kind with the macro, built with the "
        "library's std feature on and off x {f64, Decimal}; build verdict must be success; per back-end the event segment of each quantity must be identical in every configuration "
        "that contains it; cell = configuration; non-trivial = configurations with at least one quantity feature")

MAIN_RS = r'''
#![allow(unused)]
use quantities::prelude::*;
use std::fmt::{Debug, Display};
use std::ops::{Add, Div, Mul, Sub};

fn corpus<Q>(tag: &str)
where
    Q: HasRefUnit + Display + PartialOrd + Add<Output = Q> + Sub<Output = Q> + Div<Output = AmountT>,
    Q::UnitType: LinearScaledUnit + Debug + Display,
{
    let us: Vec<Q::UnitType> = Q::iter_units().collect();
    for u in &us {
        println!("{tag}|unit|{:?}|{}|{}|{:?}|{}|{}", u, u.name(), u.symbol(), u.si_prefix(), u.scale(), u.is_ref_unit());
        // every symbol (incl. the multi-byte ones) through width, fill, alignment and zero padding
        let q = Q::new(Amnt!(2.5), *u);
        println!("{tag}|ufmt|{:?}|{:>12}|{:^15.1}|{:<10}|{:012.2}|{:*>9}|{:^7}|", u, q, q, q, q, u, u);
    }
    for u in &us {
        for v in &us {
            let a = Q::new(Amnt!(2.5), *u);
            let b = Q::new(Amnt!(40), *v);
            println!("{tag}|conv|{:?}|{:?}|{}|{}", u, v, HasRefUnit::convert(&a, *v), HasRefUnit::equiv_amount(&b, *u));
            println!("{tag}|cmp|{:?}|{:?}|{:?}|{}|{}", u, v, PartialOrd::partial_cmp(&a, &b), a == b, a < b);
            println!("{tag}|arith|{:?}|{:?}|{}|{}|{}", u, v, a + b, a - b, a / b);
        }
    }
    let q = Q::new(Amnt!(-1.25), us[0]);
    println!("{tag}|fmt|{}|{:>16.3}|{:<+12}|{:^20.1}|{:010.2}|", q, q, Q::new(Amnt!(7), us[us.len() - 1]), q, q);
    // amount classes whose formatting goes through sign handling: negative zero (f64), zero, tiny negative
    let nz = Q::new(Amnt!(0) * Amnt!(-1), us[0]);
    let tiny = Q::new(Amnt!(-0.0004), us[0]);
    println!("{tag}|fmt0|{}|{:+}|{:8.2}|{:+.1}|{}|{:.2}|{:+08.1}|", nz, nz, nz, nz, tiny, tiny, tiny);
    println!("{tag}|lookup|{:?}|{:?}", Q::unit_from_symbol(&us[0].symbol()), Q::unit_from_scale(us[us.len() - 1].scale()));
}

/// every unit pair of a declared operator instance; a panic (Decimal range) is an event like any other
fn dmul<A, B, R>(tag: &str, name: &str)
where
    A: HasRefUnit + std::ops::Mul<B, Output = R> + std::panic::UnwindSafe,
    B: HasRefUnit + std::panic::UnwindSafe,
    R: Display,
    A::UnitType: LinearScaledUnit + Debug,
    B::UnitType: LinearScaledUnit + Debug,
{
    for u in A::iter_units() {
        for v in B::iter_units() {
            let a = A::new(Amnt!(2), u);
            let b = B::new(Amnt!(3), v);
            match std::panic::catch_unwind(move || format!("{}", a * b)) {
                Ok(s) => println!("{tag}|{name}|{:?}|{:?}|{}", u, v, s),
                Err(_) => println!("{tag}|{name}|{:?}|{:?}|panic", u, v),
            }
        }
    }
}

fn ddiv<A, B, R>(tag: &str, name: &str)
where
    A: HasRefUnit + std::ops::Div<B, Output = R> + std::panic::UnwindSafe,
    B: HasRefUnit + std::panic::UnwindSafe,
    R: Display,
    A::UnitType: LinearScaledUnit + Debug,
    B::UnitType: LinearScaledUnit + Debug,
{
    for u in A::iter_units() {
        for v in B::iter_units() {
            let a = A::new(Amnt!(6), u);
            let b = B::new(Amnt!(2), v);
            match std::panic::catch_unwind(move || format!("{}", a / b)) {
                Ok(s) => println!("{tag}|{name}|{:?}|{:?}|{}", u, v, s),
                Err(_) => println!("{tag}|{name}|{:?}|{:?}|panic", u, v),
            }
        }
    }
}

/// run-time trait probe (an inherent method shadows the blanket fallback): does `L / R` / `L * R` type-check?
struct Pr<L, R>(std::marker::PhantomData<(L, R)>);
trait NoOp { fn has_div(&self) -> bool { false } fn has_mul(&self) -> bool { false } }
impl<L, R> NoOp for Pr<L, R> {}
impl<L: Div<R>, R> Pr<L, R> { fn has_div(&self) -> bool { true } }
trait NoOp2 { fn has_mul2(&self) -> bool { false } }
impl<L, R> NoOp2 for Pr<L, R> {}
impl<L: Mul<R>, R> Pr<L, R> { fn has_mul2(&self) -> bool { true } }
/// which operators between a bare number and the quantity exist in THIS configuration (judged against the declared
/// derivations of the enabled features, not compared across configurations)
macro_rules! number_probe {
    ($Q:ty, $tag:expr) => {{
        // concrete types: method resolution must see the actual impls (a generic fn would always pick the fallback)
        let p = Pr::<AmountT, $Q>(std::marker::PhantomData);
        let q = Pr::<$Q, AmountT>(std::marker::PhantomData);
        println!("xprobe|{}|{}|{}|{}|{}", $tag, p.has_div(), p.has_mul2(), q.has_div(), q.has_mul2());
    }};
}

/// the borrowed operand forms of a declared operator instance (must exist in every configuration that has the quantity)
macro_rules! forms {
    ($tag:expr, $a:expr, *, $b:expr) => {{ let (a, b) = ($a, $b); println!("{}|forms|{}|{}|{}", $tag, &a * b, a * &b, &a * &b); }};
    ($tag:expr, $a:expr, /, $b:expr) => {{ let (a, b) = ($a, $b); println!("{}|forms|{}|{}|{}", $tag, &a / b, a / &b, &a / &b); }};
}

/// rates between two quantity types: display, both operand orders of the product, value / rate, the reciprocal
fn rate_corpus<T, P>(tag: &str)
where
    T: Quantity + Display + Copy + Div<Rate<T, P>, Output = P> + std::panic::UnwindSafe + 'static,
    P: Quantity + Display + Copy + Mul<Rate<T, P>, Output = T> + std::panic::UnwindSafe + 'static,
    Rate<T, P>: Mul<P, Output = T> + Display + Copy + std::panic::UnwindSafe,
    Rate<P, T>: Mul<T, Output = P> + Display + Copy + std::panic::UnwindSafe,
    T::UnitType: Debug + std::panic::UnwindSafe,
    P::UnitType: Debug + std::panic::UnwindSafe,
{
    fn ev<V: Display, F: FnOnce() -> V + std::panic::UnwindSafe>(f: F) -> String {
        std::panic::catch_unwind(f).map(|v| format!("{}", v)).unwrap_or_else(|_| "panic".to_string())
    }
    let tus: Vec<T::UnitType> = T::iter_units().collect();
    let pus: Vec<P::UnitType> = P::iter_units().collect();
    // (term amount, per multiple): neither is one, so every factor is visible in the results
    for (ta, pm) in [(Amnt!(7.5), Amnt!(2)), (Amnt!(-3), Amnt!(0.25))] {
        for (i, tu) in tus.iter().enumerate() {
            let pu = pus[i % pus.len()];
            let qu = pus[(i + 1) % pus.len()];
            let r = Rate::<T, P>::new(ta, *tu, pm, pu);
            let q = P::new(Amnt!(6), pu);
            let t = T::new(Amnt!(30), *tu);
            let q2 = P::new(Amnt!(6), qu);
            let rc = r.reciprocal();
            println!("{tag}|rate|{:?}|{:?}|{:?}|{}|{}|{}|{}|{}|{}|{}|{}", tu, pu, qu, r, rc,
                     ev(move || r * q), ev(move || q * r), ev(move || t / r), ev(move || rc * t), ev(move || r * q2), ev(move || q2 * r));
        }
    }
}

/// quantities without reference unit: every ordered unit pair, comparisons and + - / with the panic captured as an event
fn noref_corpus<Q>(tag: &str)
where
    Q: Quantity + Display + PartialOrd + Add<Output = Q> + Sub<Output = Q> + Div<Output = AmountT> + std::panic::UnwindSafe + 'static,
    Q::UnitType: Debug + Display,
{
    fn ev<T: Display, F: FnOnce() -> T + std::panic::UnwindSafe>(f: F) -> String {
        std::panic::catch_unwind(f).map(|v| format!("{}", v)).unwrap_or_else(|_| "panic".to_string())
    }
    let us: Vec<Q::UnitType> = Q::iter_units().collect();
    for u in &us {
        let q = Q::new(Amnt!(2.5), *u);
        println!("{tag}|ufmt|{:?}|{:>12}|{:^15.1}|{:<10}|{:012.2}|{:*>9}|{:^7}|", u, q, q, q, q, u, u);
    }
    for u in &us {
        for v in &us {
            for (x, y) in [(Amnt!(2.5), Amnt!(40)), (Amnt!(7), Amnt!(7)), (Amnt!(0), Amnt!(-3))] {
                let a = Q::new(x, *u);
                let b = Q::new(y, *v);
                println!("{tag}|ncmp|{:?}|{:?}|{}|{:?}|{}|{}|{}|{}|{}", u, v, x == y, PartialOrd::partial_cmp(&a, &b), a == b, a < b, a <= b, a > b, a >= b);
                println!("{tag}|narith|{:?}|{:?}|{}|{}|{}|{}", u, v, x == y, ev(move || a + b), ev(move || a - b), ev(move || a / b));
            }
        }
    }
}

/// user-defined quantities exist in every configuration
#[quantity]
#[unit(Alpha, "al", "alpha")]
#[unit(Beta, "be", "beta")]
#[unit(Gamma, "ga", "gamma")]
struct Udef {}

#[quantity]
#[ref_unit(Uref, "ur", "uref")]
#[unit(Kilouref, "kur", KILO, 1000, "1000·ur")]
#[unit(Halfuref, "½ur", 0.5, "ur/2")]
struct Urq {}

#[quantity]
#[ref_unit(Vref, "vr", "vref")]
#[unit(Millivref, "mvr", MILLI, 0.001, "0.001·vr")]
struct Vrq {}

// derived user-defined quantities (product, square, quotient, reciprocal of the bare amount type)
#[quantity(Urq * Vrq)]
#[ref_unit(Uv, "ur·vr")]
#[unit(Kilouv, "kur·vr", 1000, "1000·ur·vr")]
struct UrqVrq {}

#[quantity(Urq * Urq)]
#[ref_unit(Squref, "ur²")]
#[unit(Sqkilouref, "kur²", 1000000, "kur²")]
struct UrqSq {}

#[quantity(Urq / Vrq)]
#[ref_unit(Upv, "ur/vr")]
#[unit(Kiloupv, "kur/vr", 1000, "1000·ur/vr")]
struct UrqPerVrq {}

#[quantity(AmountT / Urq)]
#[ref_unit(Peruref, "1/ur")]
#[unit(Perkilouref, "1/kur", 0.001, "0.001/ur")]
struct UrqInv {}

/// with serialisation support enabled the quantity and its unit type must be (de)serialisable
#[cfg(feature = "serde")]
fn serde_corpus<Q>(tag: &str)
where
    Q: Quantity + serde::Serialize + for<'de> serde::Deserialize<'de>,
    Q::UnitType: serde::Serialize + for<'de> serde::Deserialize<'de> + Debug,
{
    for u in Q::iter_units() {
        let q = Q::new(Amnt!(2.5), u);
        let text = serde_json::to_string(&q).unwrap_or_else(|e| format!("error {e}"));
        let back: Result<Q, _> = serde_json::from_str(&text);
        println!("{tag}+serde|{:?}|{}|{}|{}", u, text, serde_json::to_string(&u).unwrap_or_default(),
                 back.map(|b| format!("{:?} {}", b.unit(), b.amount() == q.amount())).unwrap_or_else(|e| format!("error {e}")));
    }
}
#[cfg(not(feature = "serde"))]
fn serde_corpus<Q>(_tag: &str) {}

fn section<F: FnOnce() + std::panic::UnwindSafe>(tag: &str, f: F) {
    if std::panic::catch_unwind(f).is_err() {
        println!("{tag}|PANIC");
    }
    println!("{tag}|end");
}

fn main() {
    std::panic::set_hook(Box::new(|_| {}));
    println!("base|amount|{}|{}", Amnt!(1.5) * ONE, SIPrefix::from_abbr("k").map(|p| p.exp()).unwrap_or(0));
    section("udef", || {
        noref_corpus::<Udef>("udef");
        corpus::<Urq>("udef");
        serde_corpus::<Udef>("udef");
        serde_corpus::<Urq>("udef");
        dmul::<Urq, Vrq, UrqVrq>("udef", "UxV"); dmul::<Vrq, Urq, UrqVrq>("udef", "VxU"); ddiv::<UrqVrq, Urq, Vrq>("udef", "UV/U"); ddiv::<UrqVrq, Vrq, Urq>("udef", "UV/V");
        dmul::<Urq, Urq, UrqSq>("udef", "UxU"); ddiv::<UrqSq, Urq, Urq>("udef", "UU/U");
        ddiv::<Urq, Vrq, UrqPerVrq>("udef", "U/V"); dmul::<UrqPerVrq, Vrq, Urq>("udef", "UpVxV"); dmul::<Vrq, UrqPerVrq, Urq>("udef", "VxUpV"); ddiv::<Urq, UrqPerVrq, Vrq>("udef", "U/UpV");
        ddiv::<AmountT, Urq, UrqInv>("udef", "1/U"); dmul::<UrqInv, Urq, AmountT>("udef", "IxU"); dmul::<Urq, UrqInv, AmountT>("udef", "UxI"); ddiv::<AmountT, UrqInv, Urq>("udef", "1/I");
        corpus::<UrqInv>("udef-inv");
        number_probe!(Urq, "udef:Urq"); number_probe!(UrqInv, "udef:UrqInv"); number_probe!(Udef, "udef:Udef");
        rate_corpus::<Urq, Vrq>("udef"); rate_corpus::<Vrq, Urq>("udef"); rate_corpus::<Udef, Urq>("udef");
        println!("udef|amount|{}|{}|{:?}", HasRefUnit::convert(&Amnt!(2.5), ONE), HasRefUnit::equiv_amount(&Amnt!(4), ONE), <AmountT as HasRefUnit>::unit_from_scale(Amnt!(1)));
    });
    #[cfg(feature = "mass")]
    section("mass", || {
        use quantities::mass::*;
        corpus::<Mass>("mass");
        serde_corpus::<Mass>("mass");
        rate_corpus::<Mass, Mass>("mass");
        number_probe!(Mass, "mass");
        println!("mass|const|{}|{}", Amnt!(1) * POUND, KILOGRAM.as_qty());
    });
    #[cfg(feature = "length")]
    section("length", || {
        use quantities::length::*;
        corpus::<Length>("length");
        serde_corpus::<Length>("length");
        rate_corpus::<Length, Length>("length");
        number_probe!(Length, "length");
        println!("length|const|{}|{}", Amnt!(12) * INCH, (Amnt!(1) * FOOT) == (Amnt!(12) * INCH));
    });
    #[cfg(feature = "duration")]
    section("duration", || {
        use quantities::duration::*;
        corpus::<Duration>("duration");
        serde_corpus::<Duration>("duration");
        rate_corpus::<Duration, Duration>("duration");
        number_probe!(Duration, "duration");
        println!("duration|const|{}", Amnt!(90) * MINUTE);
    });
    #[cfg(feature = "area")]
    section("area", || {
        use quantities::{area::*, length::*};
        let l = Amnt!(3) * METER;
        let w = Amnt!(2.5) * FOOT;
        let a: Area = l * w;
        let back: Length = a / l;
        println!("area|derived|{}|{}|{}|{}", a, back, &l * &w, (Amnt!(2) * KILOMETER) * (Amnt!(3) * KILOMETER));
        forms!("area", l, *, w); forms!("area", a, /, l);
        corpus::<Area>("area");
        serde_corpus::<Area>("area");
        rate_corpus::<Area, Area>("area");
        number_probe!(Area, "area");
        dmul::<Length, Length, Area>("area", "LxL"); ddiv::<Area, Length, Length>("area", "A/L");
    });
    #[cfg(feature = "volume")]
    section("volume", || {
        use quantities::{area::*, length::*, volume::*};
        let l = Amnt!(3) * DECIMETER;
        let a = Amnt!(2) * SQUARE_DECIMETER;
        let v: Volume = l * a;
        let v2: Volume = a * l;
        let la: Area = v / l;
        let ll: Length = v / a;
        println!("volume|derived|{}|{}|{}|{}", v, v2, la, ll);
        forms!("volume", l, *, a); forms!("volume", a, *, l); forms!("volume", v, /, l); forms!("volume", v, /, a);
        corpus::<Volume>("volume");
        serde_corpus::<Volume>("volume");
        rate_corpus::<Volume, Volume>("volume");
        number_probe!(Volume, "volume");
        dmul::<Length, Area, Volume>("volume", "LxA"); dmul::<Area, Length, Volume>("volume", "AxL"); ddiv::<Volume, Length, Area>("volume", "V/L"); ddiv::<Volume, Area, Length>("volume", "V/A");
    });
    #[cfg(feature = "speed")]
    section("speed", || {
        use quantities::{duration::*, length::*, speed::*};
        let l = Amnt!(150) * MILE;
        let t = Amnt!(1.2) * HOUR;
        let v: Speed = l / t;
        let d: Length = v * t;
        let d2: Length = t * v;
        let t2: Duration = l / v;
        println!("speed|derived|{}|{}|{}|{}", v, d, d2, t2);
        forms!("speed", l, /, t); forms!("speed", v, *, t); forms!("speed", t, *, v); forms!("speed", l, /, v);
        corpus::<Speed>("speed");
        serde_corpus::<Speed>("speed");
        rate_corpus::<Speed, Speed>("speed");
        number_probe!(Speed, "speed");
        ddiv::<Length, Duration, Speed>("speed", "L/D"); dmul::<Speed, Duration, Length>("speed", "SxD"); dmul::<Duration, Speed, Length>("speed", "DxS"); ddiv::<Length, Speed, Duration>("speed", "L/S");
    });
    #[cfg(feature = "acceleration")]
    section("acceleration", || {
        use quantities::{acceleration::*, duration::*, speed::*};
        let v = Amnt!(36) * KILOMETER_PER_HOUR;
        let t = Amnt!(5) * SECOND;
        let a: Acceleration = v / t;
        let v2: Speed = a * t;
        let t2: Duration = v / a;
        println!("acceleration|derived|{}|{}|{}|{}", a, v2, t * a, t2);
        forms!("acceleration", v, /, t); forms!("acceleration", a, *, t); forms!("acceleration", t, *, a); forms!("acceleration", v, /, a);
        corpus::<Acceleration>("acceleration");
        serde_corpus::<Acceleration>("acceleration");
        rate_corpus::<Acceleration, Acceleration>("acceleration");
        number_probe!(Acceleration, "acceleration");
        ddiv::<Speed, Duration, Acceleration>("acceleration", "S/D"); dmul::<Acceleration, Duration, Speed>("acceleration", "AxD"); ddiv::<Speed, Acceleration, Duration>("acceleration", "S/A");
    });
    #[cfg(feature = "force")]
    section("force", || {
        use quantities::{acceleration::*, force::*, mass::*};
        let m = Amnt!(2) * POUND;
        let a = Amnt!(9.5) * METER_PER_SECOND_SQUARED;
        let f: Force = m * a;
        let f2: Force = a * m;
        let m2: Mass = f / a;
        let a2: Acceleration = f / m;
        println!("force|derived|{}|{}|{}|{}", f, f2, m2, a2);
        forms!("force", m, *, a); forms!("force", a, *, m); forms!("force", f, /, a); forms!("force", f, /, m);
        corpus::<Force>("force");
        serde_corpus::<Force>("force");
        rate_corpus::<Force, Force>("force");
        number_probe!(Force, "force");
        dmul::<Mass, Acceleration, Force>("force", "MxA"); ddiv::<Force, Mass, Acceleration>("force", "F/M"); ddiv::<Force, Acceleration, Mass>("force", "F/A");
    });
    #[cfg(feature = "energy")]
    section("energy", || {
        use quantities::{energy::*, force::*, length::*};
        let f = Amnt!(12) * NEWTON;
        let l = Amnt!(300) * KILOMETER;
        let e: Energy = f * l;
        let e2: Energy = l * f;
        let f2: Force = e / l;
        let l2: Length = e / f;
        println!("energy|derived|{}|{}|{}|{}", e, e2, f2, l2);
        forms!("energy", f, *, l); forms!("energy", l, *, f); forms!("energy", e, /, l); forms!("energy", e, /, f);
        corpus::<Energy>("energy");
        serde_corpus::<Energy>("energy");
        rate_corpus::<Energy, Energy>("energy");
        number_probe!(Energy, "energy");
        dmul::<Force, Length, Energy>("energy", "FxL"); ddiv::<Energy, Force, Length>("energy", "E/F"); ddiv::<Energy, Length, Force>("energy", "E/L");
    });
    #[cfg(feature = "power")]
    section("power", || {
        use quantities::{duration::*, energy::*, power::*};
        let e = Amnt!(7.2) * KILOWATT_HOUR;
        let t = Amnt!(2) * HOUR;
        let p: Power = e / t;
        let e2: Energy = p * t;
        let t2: Duration = e / p;
        println!("power|derived|{}|{}|{}|{}", p, e2, t * p, t2);
        forms!("power", e, /, t); forms!("power", p, *, t); forms!("power", t, *, p); forms!("power", e, /, p);
        corpus::<Power>("power");
        serde_corpus::<Power>("power");
        rate_corpus::<Power, Power>("power");
        number_probe!(Power, "power");
        ddiv::<Energy, Duration, Power>("power", "E/D"); dmul::<Power, Duration, Energy>("power", "PxD"); ddiv::<Energy, Power, Duration>("power", "E/P");
    });
    #[cfg(feature = "frequency")]
    section("frequency", || {
        use quantities::{duration::*, frequency::*};
        let t = Amnt!(4) * MILLISECOND;
        let f: Frequency = Amnt!(2) / t;
        let n: AmountT = f * t;
        let n2: AmountT = t * f;
        let t2: Duration = Amnt!(2) / f;
        println!("frequency|derived|{}|{}|{}|{}", f, n, n2, t2);
        forms!("frequency", Amnt!(2), /, t); forms!("frequency", f, *, t); forms!("frequency", t, *, f); forms!("frequency", Amnt!(2), /, f);
        corpus::<Frequency>("frequency");
        serde_corpus::<Frequency>("frequency");
        rate_corpus::<Frequency, Frequency>("frequency");
        number_probe!(Frequency, "frequency");
        ddiv::<AmountT, Duration, Frequency>("frequency", "1/D"); dmul::<Frequency, Duration, AmountT>("frequency", "FxD"); ddiv::<AmountT, Frequency, Duration>("frequency", "1/F");
    });
    #[cfg(feature = "datavolume")]
    section("datavolume", || {
        use quantities::datavolume::*;
        corpus::<DataVolume>("datavolume");
        serde_corpus::<DataVolume>("datavolume");
        rate_corpus::<DataVolume, DataVolume>("datavolume");
        number_probe!(DataVolume, "datavolume");
        println!("datavolume|const|{}", Amnt!(3) * MEBIBYTE);
    });
    #[cfg(feature = "datathroughput")]
    section("datathroughput", || {
        use quantities::{datathroughput::*, datavolume::*, duration::*};
        let d = Amnt!(6) * GIGABYTE;
        let t = Amnt!(2) * MINUTE;
        let r: DataThroughput = d / t;
        let d2: DataVolume = r * t;
        let t2: Duration = d / r;
        println!("datathroughput|derived|{}|{}|{}|{}", r, d2, t * r, t2);
        forms!("datathroughput", d, /, t); forms!("datathroughput", r, *, t); forms!("datathroughput", t, *, r); forms!("datathroughput", d, /, r);
        corpus::<DataThroughput>("datathroughput");
        serde_corpus::<DataThroughput>("datathroughput");
        rate_corpus::<DataThroughput, DataThroughput>("datathroughput");
        number_probe!(DataThroughput, "datathroughput");
        ddiv::<DataVolume, Duration, DataThroughput>("datathroughput", "V/D"); dmul::<DataThroughput, Duration, DataVolume>("datathroughput", "TxD"); ddiv::<DataVolume, DataThroughput, Duration>("datathroughput", "V/T");
    });
    #[cfg(feature = "temperature")]
    section("temperature", || {
        use quantities::temperature::*;
        use quantities::Converter;
        let t = Amnt!(21.5) * DEGREE_CELSIUS;
        for u in Temperature::iter_units() {
            println!("temperature|unit|{:?}|{}|{}", u, u.name(), u.symbol());
            println!("temperature|conv|{:?}|{:?}", u, TEMPERATURE_CONVERTER.convert(&t, u).map(|x| format!("{}", x)));
        }
        serde_corpus::<Temperature>("temperature");
        noref_corpus::<Temperature>("temperature");
        rate_corpus::<Temperature, Temperature>("temperature");
        number_probe!(Temperature, "temperature");
        println!("temperature|ops|{}|{}|{}|{:?}", t + t, t - t, t / t, PartialOrd::partial_cmp(&t, &(Amnt!(70) * DEGREE_FAHRENHEIT)));
    });
    println!("done|end");
}
'''


NOSTD_USER_RS = r'''
//! A `#![no_std]` crate that defines quantities with the macro, as an embedded user would.
#![no_std]
#![allow(unused, non_camel_case_types)]
use quantities::prelude::*;

#[quantity]
#[ref_unit(Nref, "nr", "reference")]
#[unit(Kilonref, "knr", KILO, 1000, "1000·nr")]
#[unit(Tenthnref, "tnr", 0.1, "nr/10")]
pub struct Nq {}

#[quantity]
#[unit(Left, "le")]
#[unit(Right, "ri")]
pub struct Nn {}

#[quantity]
#[unit(Only, "on")]
pub struct Ns {}

#[quantity(Nq * Nq)]
#[ref_unit(Sqnref, "nr²")]
#[unit(Sqkilonref, "knr²", 1000000, "knr²")]
pub struct NqSq {}

#[quantity(AmountT / Nq)]
#[ref_unit(Pernref, "1/nr")]
#[unit(Perkilonref, "1/knr", 0.001, "0.001/nr")]
pub struct NqInv {}

pub fn touch() -> (AmountT, bool) {
    let a = Amnt!(2.5) * KILONREF;
    let b = a.convert(TENTHNREF);
    let s: NqSq = a * b;
    let back: Nq = s / a;
    let i: NqInv = Amnt!(3) / a;
    let n: AmountT = i * a;
    let r = Rate::<Nq, Nn>::new(Amnt!(7.5), NREF, Amnt!(2), LEFT);
    let t: Nq = r * (Amnt!(4) * LEFT);
    let o = (Amnt!(2) * ONLY) + (Amnt!(3) * ONLY);
    (n + back.amount() + t.amount() + o.amount(), a > b)
}
'''


def nostd_user_cargo():
    return "\n".join(['[package]', 'name = "nostduser"', 'version = "0.0.0"', 'edition = "2021"', 'publish = false', '', '[workspace]', '',
                      '[lib]', 'path = "src/lib.rs"', '', '[dependencies]',
                      'quantities = { path = "%s", default-features = false }' % REPO, '', '[features]', 'default = []',
                      '# the library built with its std feature although this crate is no_std (feature unification makes that the common case)',
                      'libstd = ["quantities/std"]', 'fpdec = ["quantities/fpdec"]', '', '[profile.dev]', 'opt-level = 0', 'debug = 0',
                      'incremental = false', '', '[lints.rust]', 'unexpected_cfgs = "allow"', 'unused = "allow"']) + "\n"


def nostd_user_builds(part):
    """A no_std crate using #[quantity] must build whether or not the library itself has std."""
    cdir = pl.crate_dir("c19-nostd-user")
    shutil.rmtree(cdir, ignore_errors=True)
    pl._write(os.path.join(cdir, "Cargo.toml"), nostd_user_cargo())
    pl._write(os.path.join(cdir, "src", "lib.rs"), NOSTD_USER_RS)
    pl.ensure_lock(cdir)
    ok = True
    for libstd in (True, False):
        for dec in (False, True):
            feats = (["libstd"] if libstd else []) + (["fpdec"] if dec else [])
            name = "no_std user crate/%s/%s" % ("library with std" if libstd else "library without std", "dec" if dec else "f64")
            part.evals += 1
            cmd = ["build", "--lib", "--message-format=json"] + (["--features", ",".join(feats)] if feats else [])
            try:
                p = fw._cargo(cmd, cdir, os.path.join(WORK, "target-c19-nostd-user"), timeout=1200)
            except fw.Inconclusive as e:
                part.inconclusive.append("%s: %s" % (name, e))
                continue
            if p.returncode != 0:
                ok = False
                diags = [d for d in fw.parse_diags(p.stdout) if d["level"] == "error"]
                if not diags:
                    part.inconclusive.append("%s: cargo exited with %s without a compiler diagnostic" % (name, p.returncode))
                    continue
                first = diags[0]
                sig = {"kind": "build", "config": name, "backend": "dec" if dec else "f64", "class": {"kind": "build", "config": name}}
                part.violation(sig, "C19 build: %s: a #![no_std] crate that defines quantities with the macro does not build: %s (%s:%s)" % (
                    name, (first.get("message") or "")[:300], first.get("file"), first.get("line")),
                    {"module": "c19", "kind": "nostd_user", "config": name, "diags": [{k: d.get(k) for k in ("code", "message", "file", "line")} for d in diags[:6]]})
            else:
                part.cell(name)
                part.count("nostd_user_configs_ok")
    if ok:
        pl.cleanup(cdir)


def probe_cargo():
    lines = ['[package]', 'name = "featprobe"', 'version = "0.0.0"', 'edition = "2021"', 'publish = false', '', '[workspace]', '',
             '[dependencies]', 'quantities = { path = "%s", default-features = false }' % REPO,
             'serde = { version = "1", optional = true }', 'serde_json = { version = "1.0", optional = true }', '', '[features]', 'default = []',
             'std = ["quantities/std"]', 'fpdec = ["quantities/fpdec"]', 'serde = ["quantities/serde", "dep:serde", "dep:serde_json"]',
             '# serialisation support of the library switched on by somebody else in the build graph, while this crate has no serde dependency',
             'libserde = ["quantities/serde"]']
    for f in FEATURES:
        lines.append('%s = ["quantities/%s"]' % (f, f))
    lines += ['', '[profile.dev]', 'opt-level = 0', 'debug = 0', 'incremental = false', '', '[lints.rust]', 'unexpected_cfgs = "allow"', 'unused = "allow"']
    return "\n".join(lines) + "\n"


def configs(tier):
    sets = [("none", [])] + [(f, [f]) for f in FEATURES] + [("all", list(FEATURES))]
    out = []
    for name, fs in sets:
        for std in (True, False):
            for dec in (False, True):
                for serde in (False, True):
                    default_variant = std and not dec and not serde
                    if tier == "quick" and not (default_variant or name in ("all", "none")):
                        continue
                    out.append({"set": name, "features": fs, "std": std, "dec": dec, "serde": serde})
    # the library's serde feature on, the probe's own off (no serde dependency in the crate that uses the macro)
    for name, fs in sets:
        for std in (True, False):
            for dec in (False, True):
                if name in ("all", "none") and (tier == "thorough" or std != dec):
                    out.append({"set": name, "features": fs, "std": std, "dec": dec, "serde": False, "libserde": True})
    return out


def run_config(args):
    cfg, cdir, slot = args
    feats = list(cfg["features"]) + (["std"] if cfg["std"] else []) + (["fpdec"] if cfg["dec"] else []) + (["serde"] if cfg["serde"] else []) + (["libserde"] if cfg.get("libserde") else [])
    tgt = os.path.join(WORK, "target-c19-%d" % slot)
    cmd = ["build", "--message-format=json"]
    if feats:
        cmd += ["--features", ",".join(feats)]
    try:
        p = fw._cargo(cmd, cdir, tgt, timeout=1200)
    except fw.Inconclusive as e:
        return cfg, {"status": "inconclusive", "reason": str(e)}
    if p.returncode != 0:
        diags = [d for d in fw.parse_diags(p.stdout) if d["level"] == "error"]
        if not diags:
            # no compiler error was reported: cargo was killed or failed for a reason outside the code under test
            return cfg, {"status": "inconclusive", "reason": "cargo exited with %s without a compiler diagnostic: %s" % (p.returncode, p.stderr[-200:])}
        return cfg, {"status": "build_failed", "diags": [{k: d[k] for k in ("code", "message", "file", "line")} for d in diags[:6]], "stderr": p.stderr[-1500:]}
    exe = os.path.join(tgt, "debug", "featprobe")
    try:
        r = subprocess.run([exe], capture_output=True, timeout=300)
    except subprocess.TimeoutExpired:
        return cfg, {"status": "inconclusive", "reason": "probe watchdog"}
    if r.returncode != 0:
        return cfg, {"status": "run_failed", "stderr": r.stderr[-800:].decode("utf-8", "replace"), "code": r.returncode}
    return cfg, {"status": "ok", "out": r.stdout.decode("utf-8")}


def _slot_worker(args):
    slot, cdir, cfgs = args
    return [run_config((c, cdir, slot)) for c in cfgs]


def cfg_name(c):
    return "%s/%s/%s/%s" % (c["set"], "std" if c["std"] else "no_std", "dec" if c["dec"] else "f64",
                            "lib_serde_only" if c.get("libserde") else ("serde" if c["serde"] else "no_serde"))


def main(tier, seed, nproc, t0):
    part = fw.Part()
    cdir = pl.crate_dir("c19-probe")
    shutil.rmtree(cdir, ignore_errors=True)
    pl._write(os.path.join(cdir, "Cargo.toml"), probe_cargo())
    pl._write(os.path.join(cdir, "src", "main.rs"), MAIN_RS)
    pl.ensure_lock(cdir)
    cfgs = configs(tier)
    nslots = 8
    buckets = [[] for _ in range(nslots)]
    # keep equal back-ends together on a slot (fewer rebuilds of the dependency)
    for i, c in enumerate(sorted(cfgs, key=lambda c: (c["dec"], c["serde"], c["std"], c["set"]))):
        buckets[i % nslots].append(c)
    results = []
    with mp.Pool(nslots) as pool:
        for lst in pool.imap_unordered(_slot_worker, [(i, cdir, b) for i, b in enumerate(buckets) if b]):
            results.extend(lst)
    segs = {}
    for cfg, res in results:
        part.evals += 1
        name = cfg_name(cfg)

        def viol(kind, text, extra=None):
            sig = {"kind": kind, "config": name, "backend": "dec" if cfg["dec"] else "f64", "class": {"kind": kind, "config": name, "extra": extra}}
            part.violation(sig, "C19 %s: configuration %s: %s" % (kind, name, text), {"module": "c19", "kind": "config", "config": cfg, "result": {k: v for k, v in res.items() if k != "out"}})
        if res["status"] == "inconclusive":
            part.inconclusive.append("%s: %s" % (name, res["reason"]))
            continue
        if res["status"] == "build_failed":
            first = res["diags"][0] if res["diags"] else {"message": res["stderr"][-300:]}
            viol("build", "does not build: %s (%s:%s)" % ((first.get("message") or "")[:300], first.get("file"), first.get("line")))
            continue
        if res["status"] == "run_failed":
            viol("run", "probe exited with %s: %s" % (res["code"], res["stderr"][:300]))
            continue
        lines = res["out"].splitlines()
        tags = {}
        for l in lines:
            tags.setdefault(l.split("|", 1)[0], []).append(l)
        # number (op) quantity: n * q, q * n and q / n always exist; n / q only where a reciprocal quantity is declared AND enabled
        for l in tags.pop("xprobe", []):
            _, t, ndq, nmq, qdn, qmn = l.split("|")
            want_ndq = (t in ("duration", "frequency") and "frequency" in cfg["features"]) or t in ("udef:Urq", "udef:UrqInv")
            got = (ndq == "true", nmq == "true", qdn == "true", qmn == "true")
            if got != (want_ndq, True, True, True):
                viol("number_operators", "%s: (number / q, number * q, q / number, q * number) type-check = %s, declared for this configuration: %s" % (
                    t, got, (want_ndq, True, True, True)), t)
            part.count("number_operator_probes")
        present = [t for t in tags if t in FEATURES]
        if cfg["serde"]:
            sp = sorted(t[:-6] for t in tags if t.endswith("+serde") and t != "udef+serde")
            if sp != sorted(cfg["features"]):
                viol("serde_exposure", "serialisation segments %s, enabled quantities %s" % (sp, sorted(cfg["features"])))
            for t in tags:
                if t.endswith("+serde") and any("error " in l for l in tags[t]):
                    viol("serde_roundtrip", "serialisation of %s fails: %s" % (t[:-6], [l for l in tags[t] if "error " in l][:1]), t)
        if sorted(present) != sorted(cfg["features"]):
            viol("exposure", "expected segments %s, observed %s" % (sorted(cfg["features"]), sorted(present)))
        for t in list(tags):
            if any(l.endswith("|PANIC") for l in tags[t]):
                viol("panic", "corpus segment %s panicked" % t, t)
        bk = "dec" if cfg["dec"] else "f64"
        for t, ls in tags.items():
            h = hashlib.sha256("\n".join(ls).encode()).hexdigest()[:16]
            segs.setdefault((bk, t), {}).setdefault(h, []).append((name, ls))
        if cfg["features"]:
            part.cell(name)
        part.count("configs_ok")
    # differential monitor: a quantity's events are identical wherever it is present
    for (bk, t), variants in sorted(segs.items()):
        part.evals += 1
        if len(variants) > 1:
            vs = sorted(variants.values(), key=lambda v: -len(v))
            ref_name, ref_lines = vs[0][0]
            for other in vs[1:]:
                oname, olines = other[0]
                diff = next(((a, b) for a, b in zip(ref_lines, olines) if a != b), (None, None))
                sig = {"kind": "differential", "backend": bk, "segment": t, "class": {"kind": "differential", "backend": bk, "segment": t}}
                part.violation(sig, "C19 differential: %s segment '%s' differs between %s and %s (%d configs): %r vs %r" % (
                    bk, t, ref_name, oname, len(other), diff[0], diff[1]), {"module": "c19", "kind": "differential", "segment": t, "configs": [ref_name, oname]})
        else:
            part.count("segments_identical")
    nostd_user_builds(part)
    ex = next(((c, r) for c, r in results if r["status"] == "ok" and c["set"] == "speed"), None)
    if ex:
        part.sample({"config": cfg_name(ex[0]), "events": [l for l in ex[1]["out"].splitlines() if l.startswith("speed|derived") or l.startswith("speed|fmt")]})
    part.counters["configurations"] = len(cfgs)
    if not part.violations:
        pl.cleanup(cdir)
    return fw.finish(PID, tier, seed, part, t0, RULE, exhaustive=(tier == "thorough"), min_evals=len(cfgs),
                     assumptions=["builds with the installed stable toolchain; the probe is a std binary, 'no std' refers to the crate feature"])


def replay(path):
    with open(path, encoding="utf-8") as f:
        data = json.load(f)
    print("C19 replay: re-running the quick matrix")
    import time
    return main("quick", data.get("seed", 1), 8, time.time())
