"""Quantity definitions: source emitter, declared-semantics model, random generator.

A definition is a dict (see tables/synthetic.json):
  name, derived (None | {lhs, op, rhs}), doc, ref (None | {ident, symbol, prefix, doc}),
  units [{ident, symbol, prefix, scale (literal text | None), doc}], attrs (source order:
  'R' or index into units).

The *model* below is written from the documented behaviour of `#[quantity]`
(README, macro docs, property C09/C11 statements) - not from the macro code.
"""
from fractions import Fraction
import re

SI_EXP = {"QUECTO": -30, "RONTO": -27, "YOCTO": -24, "ZEPTO": -21, "ATTO": -18, "FEMTO": -15,
          "PICO": -12, "NANO": -9, "MICRO": -6, "MILLI": -3, "CENTI": -2, "DECI": -1, "NONE": 0,
          "DECA": 1, "HECTO": 2, "KILO": 3, "MEGA": 6, "GIGA": 9, "TERA": 12, "PETA": 15,
          "EXA": 18, "ZETTA": 21, "YOTTA": 24, "RONNA": 27, "QUETTA": 30}


_HUMP = re.compile(r"[A-Z]?[a-z]+|[A-Z]+(?![a-z])")


def words(ident):
    """Words of an identifier: split at '_' and at lower->Upper boundaries (camel humps)."""
    out = []
    for piece in ident.split("_"):
        out.extend(_HUMP.findall(piece) or ([piece] if piece else []))
    return out


def variant_name(ident):
    """UpperCamel of an identifier made of ASCII words joined by '_'."""
    return "".join(w[:1].upper() + w[1:].lower() for w in words(ident))


def const_name(ident):
    """UPPER_SNAKE constant of an identifier made of ASCII words joined by '_'."""
    return "_".join(w.upper() for w in words(ident))


def display_name(ident):
    return ident.replace("_", " ")


def lit_value(text):
    """Exact value of an integer or float literal (no suffix/exponent in our grammar,
    but 'e' notation is accepted for the astro table)."""
    t = text.replace("_", "")
    if t.endswith("."):
        t = t + "0"
    if "e" in t or "E" in t:
        m, e = re.split("[eE]", t)
        if m.endswith("."):
            m += "0"
        return Fraction(m) * Fraction(10) ** int(e)
    return Fraction(t)


def rust_str(s):
    out = ['"']
    for ch in s:
        if ch == '"':
            out.append('\\"')
        elif ch == "\\":
            out.append("\\\\")
        elif ch == "\n":
            out.append("\\n")
        else:
            out.append(ch)
    out.append('"')
    return "".join(out)


def emit_unit_attr(u, is_ref, style=0):
    args = [u["ident"], rust_str(u["symbol"])]
    if u.get("prefix"):
        args.append(u["prefix"])
    if not is_ref and u.get("scale") is not None:
        args.append(u["scale"])
    if u.get("doc") is not None:
        args.append(rust_str(u["doc"]))
    kw = "ref_unit" if is_ref else "unit"
    if style == 1:
        return "#[%s(\n    %s\n)]" % (kw, ",\n    ".join(args))
    if style == 2:
        return "#[%s(%s,)]" % (kw, ", ".join(args))
    return "#[%s(%s)]" % (kw, ", ".join(args))


def emit_definition(d, attrs=None, extras=None, vis="pub ", styles=None):
    """Returns the source lines of the definition.  `attrs` overrides d['attrs']
    (a permutation); `extras` maps position -> list of extra attribute/doc lines
    inserted before the attribute at that position (position len(attrs) = before struct)."""
    attrs = d["attrs"] if attrs is None else attrs
    extras = extras or {}
    if d.get("interleave") and not extras:
        # foreign attributes between the unit descriptions (doc comments, lint attributes), as documented definitions have them
        extras = {pos: ["/// about the next unit" if pos % 2 else "#[allow(dead_code)]"] for pos in range(1, len(attrs))}
    styles = styles or {}
    lines = []
    if d.get("derived"):
        dv = d["derived"]
        lines.append("#[quantity(%s %s %s)]" % (dv["lhs"], dv["op"], dv["rhs"]))
    else:
        lines.append("#[quantity]")
    for pos, a in enumerate(attrs):
        lines.extend(extras.get(pos, []))
        if a == "R":
            lines.extend(emit_unit_attr(d["ref"], True, styles.get(pos, 0)).split("\n"))
        else:
            lines.extend(emit_unit_attr(d["units"][a], False, styles.get(pos, 0)).split("\n"))
    lines.extend(extras.get(len(attrs), []))
    if d.get("doc") and len(attrs) not in extras:
        lines.append("/// " + d["doc"])
    lines.append("%sstruct %s {}" % (vis, d["name"]))
    return lines


def expected_registry(d, attrs=None):
    """Declared semantics: the list of units in the specified iteration order.
    Each entry: dict(variant, name, symbol, prefix (None|str), scale (Fraction|None),
    const, is_ref, decl_pos)."""
    attrs = d["attrs"] if attrs is None else attrs
    ents = []
    for pos, a in enumerate(attrs):
        u = d["ref"] if a == "R" else d["units"][a]
        is_ref = a == "R"
        has_ref = d["ref"] is not None
        ents.append({
            "variant": variant_name(u["ident"]),
            "name": display_name(u["ident"]),
            "symbol": u["symbol"],
            "prefix": u.get("prefix") if has_ref else None,
            "scale": (Fraction(1) if is_ref else (lit_value(u["scale"]) if u.get("scale") is not None else None)),
            "const": const_name(u["ident"]),
            "is_ref": is_ref,
            "decl_pos": pos,
        })
    if d["ref"] is not None:
        # non-decreasing scale; reference unit first among scale one; declaration order otherwise
        ents.sort(key=lambda e: (e["scale"], 0 if e["is_ref"] else 1, e["decl_pos"]))
    else:
        ents.sort(key=lambda e: e["name"].encode("utf-8"))
    return ents


def kind_of(d):
    n = len(d["units"]) + (1 if d["ref"] else 0)
    if n == 1:
        return "single"
    return "ref" if d["ref"] else "noref"


# ---------------------------------------------------------------------------
# random generator (C11 / C12 / C06 / C09 / C10)

_SYL = ["ba", "ko", "li", "mu", "ne", "ra", "so", "ti", "ve", "zo", "qua", "fen", "dor", "gal", "hix",
        "jum", "pry", "wes", "yal", "cre"]
_SYMCH = list("abcdefghijklmnopqrstuvwxyzABCDEFGHIJKLMNOPQRSTUVWXYZ") + ["°", "µ", "²", "³", "/", "Ω", "☉", "′", "%", "·", "é", "ß", "₁"]


class DefGen:
    """Random well-formed definitions. All identifiers are globally unique inside one
    generator instance (unit constants share one namespace per module)."""

    def __init__(self, rng, tag=""):
        self.rng = rng
        self.used_idents = set()
        self.tag = tag
        self.counter = 0

    def word(self, cap=None):
        r = self.rng
        n = r.randint(1, 3)
        w = "".join(r.choice(_SYL) for _ in range(n))
        if len(w) < 2:
            w += "x"
        if cap is None:
            cap = r.random() < 0.8
        return w.capitalize() if cap else w

    def ident(self, multiword=False):
        r = self.rng
        for _ in range(1000):
            nw = r.choice([2, 3]) if multiword else r.choice([1, 1, 2, 2, 3])
            ws = [self.word() for _ in range(nw)]
            if multiword and nw >= 2 and r.random() < 0.6:
                ws[1] = ws[1].lower()                  # a lower-case word such as 'per'
            if nw >= 2 and r.random() < 0.2 and all(w[0].isupper() for w in ws[:2]):
                ws = [ws[0] + ws[1]] + ws[2:]          # camel hump without underscore: 'SquarePop'

            ident = "_".join(ws)
            key = const_name(ident)
            # UpperCamel/UPPER_SNAKE must be collision free
            if key not in self.used_idents and variant_name(ident).upper() not in {k.replace("_", "") for k in self.used_idents}:
                self.used_idents.add(key)
                return ident
        raise RuntimeError("ident space exhausted")

    def type_name(self):
        self.counter += 1
        return "G%s%s%d" % (self.tag, self.word(True), self.counter)

    def symbol(self, used):
        r = self.rng
        for _ in range(1000):
            n = r.choice([1, 1, 2, 2, 3, 4])
            s = "".join(r.choice(_SYMCH) for _ in range(n))
            if r.random() < 0.15 and used:
                base = r.choice(sorted(used))
                s = base + r.choice(_SYMCH)          # prefix of each other
            if s not in used and s.strip() == s and s != "":
                used.add(s)
                return s
        raise RuntimeError("symbol space exhausted")

    def scale_literal(self, avoid_one=False):
        """Returns literal text with <= 15 significant digits whose value is exactly
        representable in Decimal (<= 18 fractional digits); several literal forms."""
        r = self.rng
        kind = r.choice(["int", "int", "dec", "dec", "pow10", "pow10", "tiny", "big", "long"])
        if kind == "int":
            v = r.choice([2, 3, 5, 7, 12, 24, 60, 128, 1024, 3600, 86400, r.randint(2, 99999)])
            base = str(v)
            frac = ""
        elif kind == "dec":
            digs = r.randint(1, 8)
            ip = r.choice([0, 0, 0, r.randint(1, 999)])
            fp = "".join(r.choice("0123456789") for _ in range(digs - 1)) + r.choice("123456789")
            base, frac = str(ip), fp
        elif kind == "pow10":
            e = r.choice([-9, -6, -3, -2, -1, 1, 2, 3, 6, 9])
            if e < 0:
                base, frac = "0", "0" * (-e - 1) + "1"
            else:
                base, frac = "1" + "0" * e, ""
        elif kind == "tiny":
            e = r.randint(4, 12)
            base, frac = "0", "0" * (e - 1) + str(r.randint(1, 999))
        elif kind == "long":
            # 16-18 significant digits: exact only in Decimal; f64 holds the correctly rounded double
            nd = r.randint(16, 18)
            ip = r.choice([0, 0, r.randint(1, 99)])
            nfr = nd - (len(str(ip)) if ip else 0)
            nfr = max(1, min(18, nfr))
            lead = r.randint(0, max(0, 18 - nfr)) if ip == 0 else 0
            fp = "0" * lead + "".join(r.choice("0123456789") for _ in range(nfr - 1)) + r.choice("123456789")
            fp = fp[:18]
            if fp[-1] == "0":
                fp = fp[:-1] + "7"
            base, frac = str(ip), fp
        else:
            base, frac = str(r.randint(10 ** 5, 2 * 10 ** 9)), ""
        if frac:
            text = base + "." + frac
            if r.random() < 0.2 and len(frac) <= 16:
                text += "0" * r.randint(1, 2)       # 0.0010
        else:
            form = r.choice(["i", "i", "p", "p0"])
            if int(base) > 2147483647:
                form = r.choice(["p", "p0"])           # f64: unsuffixed int literal must fit i32 (DESIGN 4.4)
            text = base + {"i": "", "p": ".", "p0": ".0"}[form]
        if avoid_one and lit_value(text) == 1:
            return self.scale_literal(avoid_one)
        return text

    def definition(self, kind=None, n_units=None, derived=None, tie_p=0.2):
        r = self.rng
        if kind is None:
            kind = r.choice(["ref", "ref", "ref", "noref", "single"])
        name = self.type_name()
        used_syms = set()
        d = {"name": name, "derived": derived, "doc": r.choice([None, "Generated quantity " + name]), "ref": None, "units": []}
        if kind == "single":
            d["units"].append({"ident": self.ident(multiword=r.random() < 0.7), "symbol": self.symbol(used_syms), "prefix": None, "scale": None,
                               "doc": r.choice([None, "only unit"])})
            d["attrs"] = [0]
            return d
        if n_units is None:
            n_units = r.randint(2, 10)
        if kind == "noref":
            for _ in range(n_units):
                d["units"].append({"ident": self.ident(multiword=r.random() < 0.4), "symbol": self.symbol(used_syms), "prefix": None,
                                   "scale": None, "doc": r.choice([None, None, "doc " + self.word()])})
            if n_units >= 2 and r.random() < 0.2:
                i, j = r.sample(range(n_units), 2)
                d["units"][j]["symbol"] = d["units"][i]["symbol"]        # two distinct units sharing one symbol
            d["attrs"] = list(range(n_units))
            r.shuffle(d["attrs"])
            return d
        # with reference unit
        ref_prefixed = r.random() < 0.5
        ref_prefix = r.choice(["NONE", "NONE", "KILO", "MILLI", "MEGA"]) if ref_prefixed else None
        d["ref"] = {"ident": self.ident(), "symbol": self.symbol(used_syms), "prefix": ref_prefix,
                    "doc": r.choice([None, "Reference unit of " + name])}
        scales = []
        for i in range(n_units - 1):
            if scales and r.random() < tie_p:
                lit = r.choice(scales)                  # tie (same literal text or same value other form)
                if r.random() < 0.5:
                    v = lit_value(lit)
                    if v.denominator == 1 and v < 2147483647:
                        lit = str(v.numerator) + r.choice(["", ".", ".0"])
            elif r.random() < 0.08:
                lit = r.choice(["1", "1.", "1.0", "1.00"])     # tie with the reference unit
            else:
                lit = self.scale_literal()
            scales.append(lit)
            prefix = None
            if r.random() < 0.4:
                if ref_prefix is not None:
                    v = lit_value(lit)
                    # a prefix consistent with the scale when it is a power of ten, else arbitrary
                    prefix = None
                    for nm, e in SI_EXP.items():
                        if Fraction(10) ** (e - SI_EXP[ref_prefix]) == v:
                            prefix = nm
                    if prefix is None and r.random() < 0.3:
                        prefix = r.choice(list(SI_EXP))
                else:
                    prefix = r.choice(list(SI_EXP))
            d["units"].append({"ident": self.ident(), "symbol": self.symbol(used_syms), "prefix": prefix, "scale": lit,
                               "doc": r.choice([None, None, "doc " + self.word()])})
        if r.random() < 0.3 and len(d["units"]) >= 2:
            # two tiny scales closer together than 1e-9, in either declaration order
            pair = r.choice([("0.000000001", "0.000000000001"), ("0.0000000005", "0.0000000002"), ("0.00000000025", "0.0000000003"),
                             ("0.00000000000000001", "0.000000000000000001")])
            i, j = r.sample(range(len(d["units"])), 2)
            if r.random() < 0.5:
                i, j = j, i
            d["units"][i]["scale"], d["units"][j]["scale"] = pair
            d["units"][i]["prefix"] = d["units"][j]["prefix"] = None
        order = list(range(n_units - 1)) + ["R"]
        r.shuffle(order)
        if r.random() < 0.5:                            # conventional: ref_unit first
            order.remove("R")
            order.insert(0, "R")
        d["attrs"] = order
        return d


def permutations_of(d, rng, k):
    """k attribute orders of d: the declared one plus k-1 random permutations."""
    res = [list(d["attrs"])]
    tries = 0
    while len(res) < k and tries < 50:
        tries += 1
        p = list(d["attrs"])
        rng.shuffle(p)
        if p not in res:
            res.append(p)
    return res
