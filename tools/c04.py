"""C04 - Derived products and quotients preserve the physical value."""
from fractions import Fraction
import framework as fw
import corelane as cl
import derivlane as dl
import oracle as orc
import amounts as am
from common import Rng, frac_of, enc_exact, enc_round

PID = "C04"
BINS = ["x_core", "x_derived"]
RULE = ("every operator instance licensed by the declared derivations (catalogue 34, synthetic 14, astro 4 [f64]) x ALL unit pairs of the "
        "operand types (exhaustive) x seeded in-range amount pairs; each request evaluates the four operand forms a op b, &a op b, a op &b, "
        "&a op &b, and a quarter of the workload again on an executor built without std (existence decided by trait resolution and reported at run time, with the Output type name); second pass feeds every result "
        "into the inverse instance ((a*b)/b, (a/b)*b); cell = (backend,instance,u,v,form); non-trivial = both amounts non-zero and scale "
        "product/ratio != 1")
EXHAUSTIVE = True


def prepare(backends):
    return dl.prepare(backends)


def plan(env, tier, seed):
    n = 5 if tier == "quick" else 160
    tasks = []
    for b, e in env.items():
        reg = e["reg"]
        for inst in dl.expected_instances(b):
            l, op, r, out = inst[:4]
            tasks.append({"backend": b, "inst": inst, "l": reg[l], "r": reg[r], "out": reg[out], "n": n, "seed": seed,
                          "bin": e["bins"]["x_derived"], "inst_all": [i[:4] for i in dl.expected_instances(b)]})
            if "x_derived_nostd" in e["bins"] and inst[4] != "astro_derivations":
                # the same instance on the executor built without std (library and the crate expanding the macro), reduced workload
                tasks.append(dict(tasks[-1], bin=e["bins"]["x_derived_nostd"], n=max(1, n // 4), lib="no_std"))
    return tasks


def gen_pairs(rng, b, lent, rent, oent, op, u, v, n):
    su, sv = lent["units"][u]["scale"], rent["units"][v]["scale"]
    lmin, _ = cl.smin_smax(lent)
    rmin, _ = cl.smin_smax(rent)
    S = su * sv if op == "mul" else su / sv
    out = []
    xs = cl.safe_amounts(rng, b, lent, u, n * 3, ["safe_random", "short_dec", "small_int", "safe_random", "scale_related", "long_digits"])
    ys = cl.safe_amounts(rng, b, rent, v, n * 3, ["safe_random", "small_int", "short_dec", "safe_random"])
    for (x, cx), (y, cy) in zip(xs, ys):
        fx, fy = frac_of(x, b), frac_of(y, b)
        if op == "div" and fy == 0:
            continue
        M = fx * su * fy * sv if op == "mul" else (fx * su) / (fy * sv)
        if not dl.result_box_ok(b, M, S, oent):
            continue
        if b == "dec" and not dl.raw_ok(op, fx, fy):
            continue                     # raw amount product/quotient beyond the decimal range: see C18 known finding
        out.append((x, y, cx + "/" + cy))
        if len(out) >= n:
            break
    return out


def work(task):
    part = fw.Part()
    b = task["backend"]
    l, op, r, out = task["inst"][:4]
    lent, rent, oent = task["l"], task["r"], task["out"]
    rng = Rng("%s/C04/%s/%s%s%s" % (task["seed"], b, l, op, r))
    cases = []
    for u in range(len(lent["units"])):
        for v in range(len(rent["units"])):
            for (x, y, cls) in gen_pairs(rng, b, lent, rent, oent, op, u, v, task["n"]):
                cases.append({"inst": [l, op, r, out], "u": u, "v": v, "x": x, "y": y, "cls": cls, "kind": "direct",
                              "reqs": [{"op": "bin", "l": l, "o": op, "r": r, "x": x, "u": u, "y": y, "v": v}]})
    ctx = {"backend": b, "ents": {l: lent, r: rent, out: oent}, "module": "c04", "results": []}
    fw.run_cases(part, task["bin"], cases, judge, ctx)
    # second pass: compositions through the inverse instance
    inv_op = "div" if op == "mul" else "mul"
    if (out, inv_op, r, l) in [tuple(i) for i in task["inst_all"]]:
        cases2 = []
        name2idx = {un["dbg"]: un["idx"] for un in oent["units"]}
        for (c, res) in ctx["results"]:
            if res["u"] not in name2idx:
                continue
            if inv_op == "div" and frac_of(c["y"], b) == 0:
                continue
            if b == "dec" and not dl.raw_ok(inv_op, frac_of(res["a"], b), frac_of(c["y"], b)):
                part.count("compose_skipped_raw_range")
                continue
            if b == "dec":
                s1 = oent["units"][name2idx[res["u"]]]["scale"]
                s2 = rent["units"][c["v"]]["scale"]
                S2 = s1 * s2 if inv_op == "mul" else s1 / s2
                m1 = frac_of(res["a"], b) * s1
                m2 = frac_of(c["y"], b) * s2
                M2 = m1 * m2 if inv_op == "mul" else m1 / m2
                if not dl.result_box_ok(b, M2, S2, lent):
                    part.count("compose_skipped_scale_or_result_range")
                    continue
            cases2.append({"inst": [out, inv_op, r, l], "first": c, "first_res": res, "kind": "compose",
                           "u": name2idx[res["u"]], "v": c["v"], "x": res["a"], "y": c["y"],
                           "reqs": [{"op": "bin", "l": out, "o": inv_op, "r": r, "x": res["a"], "u": name2idx[res["u"]], "y": c["y"], "v": c["v"]}]})
        fw.run_cases(part, task["bin"], cases2, judge, ctx)
    return part


def judge(part, case, resps, ctx):
    b = ctx["backend"]
    l, op, r, out = case["inst"]
    ents = ctx.get("ents")
    if ents is None:                      # replay
        reg = ctx["env"]["reg"]
        ents = {k: reg[k] for k in (l, r, out)}
    lent, rent, oent = ents[l], ents[r], ents[out]
    uu, vu = lent["units"][case["u"]], rent["units"][case["v"]]
    su, sv = uu["scale"], vu["scale"]
    la, lb = frac_of(case["x"], b), frac_of(case["y"], b)
    resp = resps[0]
    part.evals += 1
    inst_name = "%s %s %s -> %s" % (l, "*" if op == "mul" else "/", r, out)

    def viol(kind, text, form=None):
        sig = {"backend": b, "instance": inst_name, "u": uu["dbg"], "v": vu["dbg"], "kind": kind, "form": form,
               "class": {"kind": kind, "backend": b, "instance": inst_name, "form": form, "u": uu["dbg"], "v": vu["dbg"]}}
        part.violation(sig, "C04 %s: %s [%s] a=%s[%s] b=%s[%s] form=%s: %s" % (kind, b, inst_name, case["x"], uu["dbg"], case["y"], vu["dbg"], form, text),
                       {"module": "c04", "backend": b, "bin": "x_derived", "case": case, "resps": resps})

    if "panic" in resp:
        viol("panic", "request panicked: %s" % resp["panic"])
        return
    Ma, Mb = la * su, lb * sv
    if op == "mul":
        M, S = Ma * Mb, su * sv
    else:
        M, S = Ma / Mb, su / sv
    oscales = {un["dbg"]: un["scale"] for un in oent["units"]}
    first_ok = None
    for form in dl.FORMS:
        res = resp[form]
        if res is None:
            viol("missing_form", "the declared derivation licenses `%s` but no such operator impl exists" % dl.FORM_TEXT[form], form)
            continue
        if "panic" in res:
            viol("panic", "`%s` panicked on in-range operands: %s" % (dl.FORM_TEXT[form], res["panic"]), form)
            continue
        if dl.norm_type(res["out"]) != out:
            viol("result_type", "`%s` has type %s, declared result type is %s" % (dl.FORM_TEXT[form], res["out"], out), form)
            continue
        if res["u"] not in oscales:
            viol("foreign_unit", "result unit %s is not a unit of %s" % (res["u"], out), form)
            continue
        s_k = oscales[res["u"]]
        got = frac_of(res["a"], b) * s_k
        if case["kind"] == "direct":
            tol = dl.mag_tol(b, op, la, lb, S, M, s_k)
            want = M
        else:
            # composition: x is the (rounded) result of the first operation; compare with the original operand
            f = case["first"]
            fl, fop, fr, fo = f["inst"]
            fents = ctx.get("ents") or ents
            fu = fents[fl]["units"][f["u"]] if fl in fents else None
            fla = frac_of(f["x"], b)
            want = fla * fu["scale"]
            # error of the first result (in its magnitude) propagated, plus this operation's own bound
            fsu, fsv = fu["scale"], sv
            flb = lb
            fS = fsu * fsv if fop == "mul" else fsu / fsv
            fM = want * Mb if fop == "mul" else want / Mb
            e1 = dl.mag_tol(b, fop, fla, flb, fS, fM, su)
            e1p = e1 / abs(Mb) if op == "div" else e1 * abs(Mb)
            tol = e1p + dl.mag_tol(b, op, la, lb, S, M, s_k)
        ratio = orc.check_close(got, want, tol)
        part.ratio(ratio, {"backend": b, "instance": inst_name, "x": case["x"], "u": uu["dbg"], "y": case["y"], "v": vu["dbg"], "form": form, "kind": case["kind"]})
        if ratio > 1:
            kind = "magnitude" if case["kind"] == "direct" else "compose"
            viol(kind, "`%s` = %s %s, magnitude %.17g in reference units, exact %s is %.17g; err/tol=%.3g" % (
                dl.FORM_TEXT[form], res["a"], res["u"], float(got), "product/quotient" if case["kind"] == "direct" else "original operand magnitude", float(want), float(ratio)), form)
        elif first_ok is None:
            first_ok = res
        if la != 0 and lb != 0 and S != 1:
            part.cell(b, inst_name, uu["dbg"], vu["dbg"], form, case["kind"])
    if first_ok is not None and case["kind"] == "direct" and "results" in ctx:
        ctx["results"].append((case, first_ok))
    if la != 0 and lb != 0 and S != 1:
        part.sample({"backend": b, "instance": inst_name, "request": case["reqs"][0], "response": {"oo": resp["oo"]},
                     "expectation": "type %s, amount*scale(unit) ~= %.17g" % (out, float(M))}, limit=2)
