"""Supplementary sanitizer: run reduced executor workloads under Miri (DESIGN.md 2.11).
Miri interprets the real executor (library + dependencies) and reports undefined behaviour,
e.g. in the only unsafe code reachable from /repo: fpdec-core's decimal string parser."""
import os, json, subprocess, time
import framework as fw
import corelane as cl
import c08, c17
from common import HARNESS, WORK, Rng


def run_under_miri(bin_name, backend, requests, timeout=1500):
    fw.ensure_lock()
    env = dict(fw.ENV, CARGO_TARGET_DIR=os.path.join(WORK, "target-miri-" + backend),
               MIRIFLAGS="-Zmiri-disable-isolation")
    feats = "fpdec" if backend == "dec" else "astro"
    data = "\n".join(json.dumps(dict(r, id=i), ensure_ascii=False) for i, r in enumerate(requests)) + "\n"
    cmd = ["cargo", "+nightly", "miri", "run", "--offline", "--features", feats, "--bin", bin_name]
    try:
        p = subprocess.run(cmd, cwd=HARNESS, env=env, input=data.encode(), capture_output=True, timeout=timeout)
    except subprocess.TimeoutExpired:
        raise fw.Inconclusive("miri watchdog fired")
    except FileNotFoundError:
        raise fw.Inconclusive("cargo not found")
    err = p.stderr.decode("utf-8", "replace")
    ub = "Undefined Behavior" in err or "error: unsupported operation" in err
    out = [json.loads(l) for l in p.stdout.decode("utf-8", "replace").splitlines() if l.startswith("{")]
    if p.returncode != 0 and not ub:
        if "error: could not compile" in err or "is not installed" in err or "toolchain" in err:
            raise fw.Inconclusive("miri could not start: %s" % err[-400:])
        raise fw.Inconclusive("miri run failed without a UB report: %s" % err[-400:])
    return out, ub, err


def serde_decimal(part, seed, pid="C17"):
    """Decimal text round trips (the path into fpdec-core's unsafe parser) under Miri."""
    env = cl.prepare(("dec",), ("x_core", "x_serde"))
    reg = env["dec"]["reg"]
    rng = Rng("%s/miri/serde" % seed)
    reqs, cases = [], []
    for ty in ("Length", "DataVolume", "Temperature", "Energy"):
        ent = reg[ty]
        for u in ent["units"][:4]:
            for _ in range(6):
                x, cls = c17.finite_amount(rng, "dec")
                reqs.append({"op": "rt", "ty": ty, "x": x, "u": u["idx"]})
                cases.append((ty, u, x, cls))
    out, ub, err = run_under_miri("x_serde", "dec", reqs)
    return _judge(part, pid, "x_serde", reqs, cases, out, ub, err, lambda c, r: r.get("s_rt", {}).get("a") == c[2] and r.get("v_rt", {}).get("a") == c[2])


def smoke(part, seed, pid="C18"):
    res = {}
    for b in ("f64", "dec"):
        env = cl.prepare((b,), ("x_core",))
        reg = env[b]["reg"]
        rng = Rng("%s/miri/smoke/%s" % (seed, b))
        reqs, cases = [], []
        for ty in ("Length", "Energy", "SynA"):
            ent = reg[ty]
            n = len(ent["units"])
            for _ in range(25):
                u, v = rng.randint(0, n - 1), rng.randint(0, n - 1)
                x = cl.safe_amounts(rng, b, ent, u, 1, ["short_dec", "safe_random"])[0][0]
                y = cl.safe_amounts(rng, b, ent, v, 1, ["short_dec", "small_int"])[0][0]
                reqs += [{"op": "convert", "ty": ty, "x": x, "u": u, "v": v}, {"op": "cmp", "ty": ty, "x": x, "u": u, "y": y, "v": v},
                         {"op": "fmt", "ty": ty, "x": x, "u": u, "width": 12, "prec": 3, "plus": True}]
                cases += [None, None, None]
        out, ub, err = run_under_miri("x_core", b, reqs)
        res[b] = _judge(part, pid, "x_core", reqs, cases, out, ub, err, None)
    return res


def _judge(part, pid, bin_name, reqs, cases, out, ub, err, ok_fn):
    part.evals += len(out)
    if ub:
        log = os.path.join(fw.OUT, "replay", "%s-miri-%s.log" % (pid, bin_name))
        os.makedirs(os.path.dirname(log), exist_ok=True)
        with open(log, "w") as f:
            f.write(err)
        first = next((l for l in err.splitlines() if "Undefined Behavior" in l or "unsupported operation" in l), "")
        part.violation({"kind": "miri_ub", "bin": bin_name, "class": {"kind": "miri_ub", "bin": bin_name}},
                       "%s miri: undefined behaviour reported while running %s: %s" % (pid, bin_name, first[:300]), {"kind": "miri", "log": log})
        return {"status": "ub", "log": log}
    if len(out) != len(reqs):
        raise fw.Inconclusive("miri run answered %d of %d requests" % (len(out), len(reqs)))
    if ok_fn:
        for c, r in zip(cases, out):
            if not ok_fn(c, r):
                part.violation({"kind": "miri_roundtrip", "class": {"kind": "miri_roundtrip"}},
                               "%s miri: round trip under the interpreter differs: %s -> %s" % (pid, c[2], r), {"kind": "miri"})
    part.count("miri_requests_" + bin_name, len(out))
    return {"status": "clean", "requests": len(out)}
