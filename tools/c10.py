"""C10 - Quantities without a reference unit never mix units silently."""
from fractions import Fraction
import framework as fw
import corelane as cl
import oracle as orc
import c08
from common import Rng, frac_of, f64_is_nan

PID = "C10"
BINS = ["x_core"]
RULE = ("every type without reference unit of the executor universe (Temperature, synthetic 2-unit and 5-unit types, single-unit type; "
        "thorough: + generated ones) x ALL ordered unit pairs (exhaustive) x amount pairs incl. EQUAL amounts in different units, zeros, "
        "NaN/inf (f64) and random values; the same workload against a second executor build in which the library has no \"std\" feature and a third one in the release profile (no debug assertions); ==, !=, <, <=, >, >=, partial_cmp in both orders and +, -, / with per-operation panic capture; "
        "cell = (backend,std|no_std,type,u,v,pair kind); non-trivial = different units")
EXHAUSTIVE = True


def prepare(backends):
    env = cl.prepare(backends, BINS)
    for b in backends:
        # an optimised build without debug assertions: the unit guard must not be a debug_assert!
        env[b]["bins"]["x_core_release"] = fw.build_bins(b, ["x_core"], "release")["x_core"]
    return env


def plan(env, tier, seed):
    n = 40 if tier == "quick" else 3000
    tasks = cl.split_tasks(env, lambda ty, e: e["kind"] in ("noref", "single"), nostd=False)
    for t in tasks:
        t.update({"n": n, "seed": seed, "binname": "x_core"})
    for t in list(tasks):
        if "x_core_nostd" in env[t["backend"]]["bins"]:      # absent when the no_std build failed (reported as inconclusive)
            tasks.append(dict(t, bin=env[t["backend"]]["bins"]["x_core_nostd"], binname="x_core_nostd", n=max(10, n // 4)))
        tasks.append(dict(t, bin=env[t["backend"]]["bins"]["x_core_release"], binname="x_core_release", n=max(10, n // 4)))
    if tier == "thorough":
        import genuniverse
        gu = genuniverse.build(seed, "C10", 24, kinds=["noref", "noref", "single"])
        for b, e in gu.items():
            for ty, ent in e["reg"].items():
                if ty.startswith("_") or ent["kind"] not in ("noref", "single"):
                    continue
                tasks.append({"backend": b, "ty": ty, "entry": ent, "bin": e["bin"], "n": 60, "seed": seed})
    return tasks


def work(task):
    part = fw.Part()
    b, ty, ent = task["backend"], task["ty"], task["entry"]
    binname = task.get("binname", "x_core")
    rng = Rng("%s/C10/%s/%s/%s" % (task["seed"], b, ty, binname))
    cases = []
    # sign-sensitive and non-finite f64 amounts in every combination: "plain amount arithmetic" includes -0.0, inf and NaN
    SPECIAL = ["8000000000000000", "0000000000000000", "3ff0000000000000", "bff0000000000000", "7ff0000000000000",
               "fff0000000000000", "7ff8000000000000", "0000000000000001", "8000000000000001"]
    fixed = [(x, y) for x in SPECIAL for y in SPECIAL] if b == "f64" else [("0:0", "0:0"), ("0:0", "5:0"), ("5:0", "0:0"), ("0:3", "-25:1")]
    # different amounts that an absolute tolerance would call equal
    if b == "f64":
        fixed += [("3bc79ca10c924223", "3bd79ca10c924223"), ("3fd3333333333334", "3fd3333333333333"), ("01a56e1fc2f8f359", "81a56e1fc2f8f359"),
                  ("3fb999999999999a", "3fb999999999999b"), ("0000000000000001", "0000000000000002")]
    else:
        fixed += [("1:18", "2:18"), ("100000000000000001:18", "100000000000000002:18"), ("-1:18", "1:18")]
    for (u, v) in cl.unit_pairs(ent):
        # a single-unit type has one unit pair only: give it the workload a multi-unit type gets over all its pairs
        n = task["n"] * (12 if ent["kind"] == "single" else 1)
        for i in range(n + len(fixed)):
            x, cx = c08.any_amount(rng, b)
            kind = rng.choice(["equal_amounts", "independent", "independent", "plain"])
            if i >= n:
                x, y = fixed[i - n]
                kind = "special"
            elif kind == "equal_amounts":
                y = x
                if rng.random() < 0.4:
                    import amounts as _am
                    nb = _am.neighbours(x, b, ks=(1, -1))
                    if nb:
                        y, kind = rng.choice(nb), "near_tie"
            elif kind == "plain":
                from amounts import short_decimal
                x, y = short_decimal(rng, b), short_decimal(rng, b)
            else:
                y, _ = c08.any_amount(rng, b)
            reqs = [{"op": "arith", "ty": ty, "x": x, "u": u, "y": y, "v": v}]
            if ent["kind"] == "noref":
                reqs.append({"op": "cmp", "ty": ty, "x": x, "u": u, "y": y, "v": v})
            cases.append({"ty": ty, "u": u, "v": v, "x": x, "y": y, "kind": kind, "reqs": reqs})
    for c in cases:
        c["bin"] = binname
    fw.run_cases(part, task["bin"], cases, judge, {"backend": b, "ty": ty, "entry": ent, "module": "c10"})
    return part


def judge(part, case, resps, ctx):
    b, ty, ent = ctx["backend"], ctx["ty"], ctx["entry"]
    u, v = case["u"], case["v"]
    uu, vu = ent["units"][u], ent["units"][v]
    part.evals += 1
    binname = case.get("bin", "x_core")
    lib = "no_std" if binname.endswith("nostd") else ("std, release profile" if binname.endswith("release") else "std")

    def viol(kind, text):
        sig = {"backend": b, "lib": lib, "type": ty, "u": uu["dbg"], "v": vu["dbg"], "kind": kind,
               "class": {"kind": kind, "backend": b, "lib": lib, "type": ty, "u": uu["dbg"], "v": vu["dbg"]}}
        part.violation(sig, "C10 %s: %s(%s) %s a=%s[%s] b=%s[%s]: %s" % (kind, b, lib, ty, case["x"], uu["dbg"], case["y"], vu["dbg"], text),
                       {"module": "c10", "backend": b, "bin": binname, "ty": ty, "case": case, "resps": resps})

    ar = resps[0]
    if "panic" in ar:
        viol("panic", "request panicked as a whole: %s" % ar["panic"])
        return
    single = ent["kind"] == "single"
    for op, nat in (("add", "n_add"), ("sub", "n_sub"), ("div", "n_div")):
        res, nv = ar[op], ar[nat]
        rp = isinstance(res, dict) and "panic" in res
        np_ = isinstance(nv, dict) and "panic" in nv
        if u != v:
            if not rp:
                viol("mixed_" + op, "%s of values in different units returned %s instead of panicking" % (op, res))
            continue
        if np_:
            part.count("native_panic")
            continue
        if rp:
            viol("same_unit_panic", "%s panicked (%s) although units are equal and the amount type's own result is %s" % (op, res["panic"], nv))
            continue
        if op == "div":
            if not orc.same_bits(res, nv, b):
                viol("same_unit_" + op, "a/b = %s, the amount type's own quotient is %s" % (res, nv))
        else:
            if res["u"] != uu["dbg"]:
                viol("same_unit_unit", "%s reports unit %s" % (op, res["u"]))
            if not orc.same_bits(res["a"], nv, b):
                viol("same_unit_" + op, "%s = %s, the amount type's own result is %s" % (op, res["a"], nv))
    if not single:
        cr = resps[1]
        if "panic" in cr:
            viol("panic", "comparison request panicked: %s" % cr["panic"])
            return
        if "aa" in cr:
            # a compared with itself (same object): exactly the amount type's own answers (NaN is not equal to itself)
            for k, val in cr["aa"].items():
                if val != cr["nat_aa"][k]:
                    viol("self_cmp", "a %s a (the same object) is %s, the amount type's own answer is %s" % (k, val, cr["nat_aa"][k]))
        for blk, nm in ((cr["ab"], "(a,b)"), (cr["ba"], "(b,a)")):
            for k, val in blk.items():
                if isinstance(val, dict):
                    viol("cmp_panic", "%s %s panicked: %s" % (nm, k, val.get("panic")))
                    return
            if u != v:
                if blk["eq"] is not False or blk["ne"] is not True:
                    viol("mixed_eq", "%s: values in different units compare equal (==%s, !=%s)" % (nm, blk["eq"], blk["ne"]))
                if blk["pc"] is not None:
                    viol("mixed_order", "%s: values in different units are ordered: %s" % (nm, blk["pc"]))
                for k in ("lt", "le", "gt", "ge"):
                    if blk[k]:
                        viol("mixed_order", "%s: %s holds between values in different units" % (nm, k))
        if u == v:
            for k in ("eq", "ne", "lt", "le", "gt", "ge", "pc"):
                if cr["ab"][k] != cr["nat"][k]:
                    viol("same_unit_cmp", "%s is %s, the amount type's own answer is %s" % (k, cr["ab"][k], cr["nat"][k]))
    if u != v:
        part.cell(b, lib, ty, uu["dbg"], vu["dbg"], case["kind"])
        part.sample({"backend": b, "type": ty, "requests": case["reqs"], "responses": resps,
                     "expectation": "different units: == false, unordered, + - / panic"}, limit=2)
    else:
        part.count("same_unit")
