"""C16 - SI prefix table is a consistent bijection."""
import framework as fw
import corelane as cl
from common import Rng, load_table

PID = "C16"
BINS = ["x_si"]
RULE = ("all 25 prefixes against tables/si_brochure.json (name, abbreviation, exponent, iteration order), from_exp on ALL 256 i8 values, "
        "from_abbr on ALL strings of length <= 2 over the abbreviation alphabet plus near-miss characters (u, U+03BC, K, D, A, H, N, blank, ...) "
        "and seeded random strings; exhaustive over the finite parts; both back-end builds; cell = (backend,probe); "
        "non-trivial = every probe except the 25 positive hits")
EXHAUSTIVE = True


def prepare(backends):
    return cl.prepare(backends, BINS)


def plan(env, tier, seed):
    return [{"backend": b, "bin": e["bins"]["x_si"], "seed": seed, "nrand": 500 if tier == "quick" else 200000} for b, e in env.items()]


def work(task):
    part = fw.Part()
    b = task["backend"]
    rng = Rng("%s/C16/%s" % (task["seed"], b))
    table = load_table("si_brochure.json")["prefixes"]
    by_exp = {p["exp"]: p for p in table}
    by_abbr = {p["abbr"]: p for p in table}
    alphabet = sorted(set("".join(p["abbr"] for p in table))) + ["u", "μ", "K", "D", "A", "H", "N", "C", "F", "m ", " ", "e", "x", "0", "1", "µ", "µ", "Μ", "М", "k", "da"]
    alphabet = sorted(set(ch for s in alphabet for ch in s))
    strings = {""}
    for a in alphabet:
        strings.add(a)
        for c in alphabet:
            strings.add(a + c)
    for _ in range(task["nrand"]):
        strings.add("".join(rng.choice(alphabet + list("abcxyzQRSTU-_")) for _ in range(rng.randint(1, 5))))
    for p in table:
        strings.add(p["name"])
        strings.add(p["name"].lower())
        strings.add(p["const"])
        strings.add(p["abbr"] + p["abbr"])
    cases = [{"kind": "iter", "reqs": [{"op": "iter"}]}]
    for e in range(-128, 128):
        cases.append({"kind": "exp", "e": e, "reqs": [{"op": "from_exp", "e": e}]})
    for s in sorted(strings):
        cases.append({"kind": "abbr", "t": s, "reqs": [{"op": "from_abbr", "t": s}]})
    fw.run_cases(part, task["bin"], cases, judge, {"backend": b, "module": "c16", "by_exp": by_exp, "by_abbr": by_abbr, "table": table})
    return part


def same(p, t):
    return p is not None and t is not None and p["dbg"] == t["const"] and p["name"] == t["name"] and p["abbr"] == t["abbr"] and p["exp"] == t["exp"]


def judge(part, case, resps, ctx):
    b = ctx["backend"]
    if "table" not in ctx:
        table = load_table("si_brochure.json")["prefixes"]
        ctx = dict(ctx, table=table, by_exp={p["exp"]: p for p in table}, by_abbr={p["abbr"]: p for p in table})
    r = resps[0]
    part.evals += 1

    def viol(kind, text, detail=None):
        sig = {"backend": b, "kind": kind, "detail": detail, "class": {"kind": kind, "backend": b, "detail": detail}}
        part.violation(sig, "C16 %s: %s: %s" % (kind, b, text), {"module": "c16", "backend": b, "bin": "x_si", "case": case, "resps": resps})
    if "panic" in r:
        viol("panic", "request panicked: %s" % r["panic"])
        return
    if case["kind"] == "iter":
        ps = r["prefixes"]
        t = ctx["table"]
        if len(ps) != len(t):
            viol("iter_count", "iteration yields %d prefixes, the brochure has %d (incl. the empty prefix)" % (len(ps), len(t)))
        exps = [p["exp"] for p in ps]
        if exps != sorted(exps) or len(set(exps)) != len(exps):
            viol("iter_order", "iteration not in strictly increasing exponent order: %s" % exps)
        for p, want in zip(ps, sorted(t, key=lambda x: x["exp"])):
            if not same(p, want):
                viol("row", "prefix %s reports name=%r abbr=%r exp=%s; brochure row %s" % (p["dbg"], p["name"], p["abbr"], p["exp"], want), p["dbg"])
            part.cell(b, "row", p["dbg"])
        for key in ("name", "abbr", "exp", "dbg"):
            vals = [p[key] for p in ps]
            if len(set(vals)) != len(vals):
                viol("not_injective", "two prefixes share the same %s" % key, key)
        part.sample({"backend": b, "request": case["reqs"][0], "response": ps[:3], "expectation": "25 rows equal to tables/si_brochure.json"}, limit=1)
    elif case["kind"] == "exp":
        want = ctx["by_exp"].get(case["e"])
        got = r["r"]
        if (want is None) != (got is None) or (want is not None and not same(got, want)):
            viol("from_exp", "from_exp(%d) = %s, brochure says %s" % (case["e"], got, want), case["e"])
        part.cell(b, "exp", case["e"])
    else:
        want = ctx["by_abbr"].get(case["t"])
        got = r["r"]
        if (want is None) != (got is None) or (want is not None and not same(got, want)):
            viol("from_abbr", "from_abbr(%r) = %s, brochure says %s" % (case["t"], got, want), case["t"])
        part.cell(b, "abbr", case["t"])
