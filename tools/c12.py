"""C12 - Malformed quantity definitions are rejected at compile time."""
import os, json, glob
import framework as fw
import proglane as pl
import defgen
from common import Rng, REPO

PID = "C12"
RULE = ("each defect class of the statement applied to randomly generated well-formed definitions (plus the 13 tests/ui programs verbatim); "
        "every malformed program is its own compile target (cargo check --examples --keep-going --message-format=json) and is paired with "
        "its well-formed parent, which must compile (positive control, else the case is inconclusive); verdict = at least one error "
        "diagnostic whose primary span lies inside the offending definition (first attribute .. end of item) and no artifact; the message "
        "text is not judged; cell = (defect class, variant); non-trivial = every malformed program")


def q_header(d):
    if d.get("derived"):
        dv = d["derived"]
        return "#[quantity(%s %s %s)]" % (dv["lhs"], dv["op"], dv["rhs"])
    return "#[quantity]"


def attr_texts(d):
    out = []
    for a in d["attrs"]:
        if a == "R":
            out.append(("R", defgen.emit_unit_attr(d["ref"], True)))
        else:
            out.append((a, defgen.emit_unit_attr(d["units"][a], False)))
    return out


def assemble(header, attrs, item):
    return [header] + list(attrs) + [item]


def unit_attr(ident, sym, *rest, kw="unit"):
    return "#[%s(%s)]" % (kw, ", ".join([ident, defgen.rust_str(sym)] + [str(r) for r in rest]))


def mutations(rng, g):
    """Yields (class, variant, base_defs(list of definitions), offending lines, parent lines)."""
    out = []

    def ref_parent(n=None):
        return g.definition("ref", n_units=n or rng.randint(2, 5))

    def noref_parent():
        return g.definition("noref", n_units=rng.randint(2, 4))

    def add(cls, variant, lines, parent, base=()):
        out.append({"cls": cls, "variant": variant, "lines": lines, "parent": parent, "base": list(base)})

    def std(d):
        return assemble(q_header(d), [t for _, t in attr_texts(d)], "pub struct %s {}" % d["name"])
    # --- no unit
    d = ref_parent()
    add("no_unit", "ref_unit_only", assemble(q_header(d), [t for k, t in attr_texts(d) if k == "R"], "pub struct %s {}" % d["name"]), std(d))
    d = ref_parent()
    add("no_unit", "no_attributes", assemble(q_header(d), [], "pub struct %s {}" % d["name"]), std(d))
    d = noref_parent()
    add("no_unit", "only_doc", assemble(q_header(d), ["/// just a doc comment"], "pub struct %s {}" % d["name"]), std(d))
    # --- more than one reference unit
    d = ref_parent()
    at = [t for _, t in attr_texts(d)]
    pos = rng.randint(0, len(at))
    at2 = at[:pos] + [unit_attr(g.ident(), "zz9", kw="ref_unit")] + at[pos:]
    add("two_ref_units", "second_ref_unit", assemble(q_header(d), at2, "pub struct %s {}" % d["name"]), std(d))
    d = ref_parent()
    at = [t for _, t in attr_texts(d)]
    rt = next(t for k, t in attr_texts(d) if k == "R")
    add("two_ref_units", "same_ref_unit_twice_other_ident", assemble(q_header(d), at + [rt.replace(d["ref"]["ident"], g.ident())], "pub struct %s {}" % d["name"]), std(d))
    # a token-identical repetition of the reference unit attribute is still more than one reference unit
    for variant in ("repeated_verbatim_adjacent", "repeated_verbatim_last", "repeated_verbatim_first"):
        d = ref_parent()
        at = [t for _, t in attr_texts(d)]
        rt = next(t for k, t in attr_texts(d) if k == "R")
        i = at.index(rt)
        if variant.endswith("adjacent"):
            at2 = at[:i + 1] + [rt] + at[i + 1:]
        elif variant.endswith("last"):
            at2 = at + [rt]
        else:
            at2 = [rt] + at
        add("two_ref_units", variant, assemble(q_header(d), at2, "pub struct %s {}" % d["name"]), std(d))
    # --- scale on the reference unit
    for variant, extra in (("scale", ["1.0"]), ("int_scale", ["1"]), ("prefix_and_scale", ["KILO", "1000"]), ("scale_and_doc", ["1.0", '"doc"'])):
        d = ref_parent()
        at = []
        for k, t in attr_texts(d):
            if k == "R":
                t = unit_attr(d["ref"]["ident"], d["ref"]["symbol"], *extra, kw="ref_unit")
            at.append(t)
        add("scale_on_ref_unit", variant, assemble(q_header(d), at, "pub struct %s {}" % d["name"]), std(d))
    # --- unit without scale next to a reference unit
    for variant in ("bare", "with_doc", "with_prefix", "with_prefix_and_doc"):
        d = ref_parent()
        victim = rng.randint(0, len(d["units"]) - 1)
        at = []
        for k, t in attr_texts(d):
            if k == victim:
                u = d["units"][victim]
                extra = {"bare": [], "with_doc": ['"doc"'], "with_prefix": ["MILLI"], "with_prefix_and_doc": ["MILLI", '"doc"']}[variant]
                t = unit_attr(u["ident"], u["symbol"], *extra)
            at.append(t)
        add("unit_without_scale", variant, assemble(q_header(d), at, "pub struct %s {}" % d["name"]), std(d))
    # --- scale or prefix without any reference unit
    for variant, extra in (("scale", ["2.5"]), ("int_scale", ["1000"]), ("prefix", ["KILO"]), ("prefix_and_scale", ["KILO", "1000"]), ("scale_and_doc", ["0.5", '"doc"'])):
        d = noref_parent()
        victim = rng.randint(0, len(d["units"]) - 1)
        at = []
        for k, t in attr_texts(d):
            if k == victim:
                u = d["units"][victim]
                t = unit_attr(u["ident"], u["symbol"], *extra)
            at.append(t)
        add("scale_or_prefix_without_ref_unit", variant, assemble(q_header(d), at, "pub struct %s {}" % d["name"]), std(d))
    # --- wrong number / kind / order of attribute arguments
    arg_variants = {
        "zero_args": lambda u: "#[unit()]",
        "one_arg": lambda u: "#[unit(%s)]" % u["ident"],
        "six_args": lambda u: '#[unit(%s, %s, KILO, 1000, "doc", "more")]' % (u["ident"], defgen.rust_str(u["symbol"])),
        "string_for_scale": lambda u: '#[unit(%s, %s, "1000")]' % (u["ident"], defgen.rust_str(u["symbol"])),
        "literal_for_ident": lambda u: '#[unit("%s", %s, 1000)]' % (u["ident"], defgen.rust_str(u["symbol"])),
        "number_for_ident": lambda u: '#[unit(5, %s, 1000)]' % defgen.rust_str(u["symbol"]),
        "missing_commas": lambda u: '#[unit(%s %s 1000)]' % (u["ident"], defgen.rust_str(u["symbol"])),
        "no_parentheses": lambda u: "#[unit]",
        "name_value": lambda u: '#[unit = "x"]',
        "ident_for_symbol": lambda u: "#[unit(%s, sym, 1000)]" % u["ident"],
        "doc_before_scale": lambda u: '#[unit(%s, %s, "doc", 1000)]' % (u["ident"], defgen.rust_str(u["symbol"])),
        "prefix_after_scale": lambda u: '#[unit(%s, %s, 1000, KILO)]' % (u["ident"], defgen.rust_str(u["symbol"])),
        "two_scales": lambda u: '#[unit(%s, %s, 1000, 2000)]' % (u["ident"], defgen.rust_str(u["symbol"])),
        "two_prefixes": lambda u: '#[unit(%s, %s, KILO, MEGA, 1000)]' % (u["ident"], defgen.rust_str(u["symbol"])),
        "scale_expression": lambda u: '#[unit(%s, %s, 10 * 100)]' % (u["ident"], defgen.rust_str(u["symbol"])),
    }
    for variant, fn in arg_variants.items():
        d = ref_parent()
        victim = rng.randint(0, len(d["units"]) - 1)
        at = [fn(d["units"][victim]) if k == victim else t for k, t in attr_texts(d)]
        add("attribute_arguments", "unit_" + variant, assemble(q_header(d), at, "pub struct %s {}" % d["name"]), std(d))
    ref_variants = {
        "zero_args": lambda r: "#[ref_unit()]",
        "one_arg": lambda r: "#[ref_unit(%s)]" % r["ident"],
        "no_parentheses": lambda r: "#[ref_unit]",
        "five_args": lambda r: '#[ref_unit(%s, %s, KILO, "doc", "more")]' % (r["ident"], defgen.rust_str(r["symbol"])),
        "literal_for_ident": lambda r: '#[ref_unit("%s", %s)]' % (r["ident"], defgen.rust_str(r["symbol"])),
        "missing_comma": lambda r: '#[ref_unit(%s %s)]' % (r["ident"], defgen.rust_str(r["symbol"])),
        "doc_before_prefix": lambda r: '#[ref_unit(%s, %s, "doc", KILO)]' % (r["ident"], defgen.rust_str(r["symbol"])),
    }
    for variant, fn in ref_variants.items():
        d = ref_parent()
        at = [fn(d["ref"]) if k == "R" else t for k, t in attr_texts(d)]
        add("attribute_arguments", "ref_unit_" + variant, assemble(q_header(d), at, "pub struct %s {}" % d["name"]), std(d))
    # --- fields / generic parameters / not a struct
    items = {
        ("struct_fields", "named_field"): "pub struct %s { value: f64 }",
        ("struct_fields", "two_named_fields"): "pub struct %s { a: u8, b: u8 }",
        ("struct_fields", "tuple_field"): "pub struct %s(f64);",
        ("generic_parameters", "type_parameter"): "pub struct %s<T> {}",
        ("generic_parameters", "lifetime_parameter"): "pub struct %s<'a> {}",
        ("generic_parameters", "const_parameter"): "pub struct %s<const N: usize> {}",
        ("not_a_struct", "enum"): "pub enum %s {}",
        ("not_a_struct", "enum_with_variants"): "pub enum %s { A, B }",
        ("not_a_struct", "fn"): "pub fn %s() {}",
        ("not_a_struct", "union"): "pub union %s { a: u8 }",
        ("not_a_struct", "type_alias"): "pub type %s = f64;",
        ("not_a_struct", "const"): "pub const %s: f64 = 1.0;",
        ("not_a_struct", "mod"): "pub mod %s {}",
        ("not_a_struct", "trait"): "pub trait %s {}",
    }
    for (cls, variant), tmpl in items.items():
        d = ref_parent() if rng.random() < 0.6 else noref_parent()
        at = [t for _, t in attr_texts(d)]
        add(cls, variant, assemble(q_header(d), at, tmpl % d["name"]), std(d))
    # --- derivation arguments
    def graph():
        a, bq = ref_parent(3), ref_parent(3)
        r = g.definition("ref", n_units=3, derived={"lhs": a["name"], "op": rng.choice(["*", "/"]), "rhs": bq["name"]})
        return a, bq, r
    dargs = {
        "single_identifier": "{A}", "sum": "{A} + {B}", "difference": "{A} - {B}", "three_factors": "{A} * {B} * {A}",
        "literal_operand": "{A} * 2", "literal_lhs": "2 * {A}", "path_operand": "self::{A} * {B}", "two_arguments": "{A} * {B}, {A}",
        "junk": "fn baz", "string": '"{A} * {B}"', "parenthesised_operand": "({A}) * {B}", "remainder": "{A} % {B}",
        "call": "{A}({B})", "reference_operand": "&{A} * {B}", "empty_parens_junk": ",", "power": "{A} ^ 2",
    }
    for variant, tmpl in dargs.items():
        a, bq, r = graph()
        hdr = "#[quantity(%s)]" % tmpl.replace("{A}", a["name"]).replace("{B}", bq["name"])
        at = [t for _, t in attr_texts(r)]
        add("derivation_argument", variant, assemble(hdr, at, "pub struct %s {}" % r["name"]), std(r), base=[a, bq])
    # --- derived definitions whose operand or result type lacks a reference unit
    for variant in ("lhs_no_ref_unit", "rhs_no_ref_unit", "result_no_ref_unit", "lhs_single_unit", "result_single_unit", "amount_over_no_ref_unit"):
        op = rng.choice(["*", "/"])
        a, bq = ref_parent(3), ref_parent(3)
        bad = noref_parent() if "single" not in variant else g.definition("single")
        if variant.startswith("lhs"):
            r = g.definition("ref", n_units=3, derived={"lhs": bad["name"], "op": op, "rhs": bq["name"]})
            base, parent_r = [bad, bq], dict(r, derived={"lhs": a["name"], "op": op, "rhs": bq["name"]})
            base_parent = [a, bq]
        elif variant.startswith("rhs"):
            r = g.definition("ref", n_units=3, derived={"lhs": a["name"], "op": op, "rhs": bad["name"]})
            base, parent_r = [a, bad], dict(r, derived={"lhs": a["name"], "op": op, "rhs": bq["name"]})
            base_parent = [a, bq]
        elif variant == "amount_over_no_ref_unit":
            r = g.definition("ref", n_units=3, derived={"lhs": "AmountT", "op": "/", "rhs": bad["name"]})
            base, parent_r = [bad], dict(r, derived={"lhs": "AmountT", "op": "/", "rhs": a["name"]})
            base_parent = [a]
        else:
            r = dict(bad, derived={"lhs": a["name"], "op": op, "rhs": bq["name"]})
            good = g.definition("ref", n_units=3, derived={"lhs": a["name"], "op": op, "rhs": bq["name"]})
            base, parent_r, base_parent = [a, bq], good, [a, bq]
        out.append({"cls": "derived_without_ref_unit", "variant": variant, "lines": std(r), "parent": std(parent_r),
                    "base": base, "base_parent": base_parent})
    # --- the same unit-attribute defects with foreign attributes (doc comment, lint attribute) interleaved between the unit
    #     descriptions, as rustfmt-ed and documented real definitions have them
    def interleave(lines):
        res, seen, k = [], False, 0
        for l in lines:
            if l.lstrip().startswith(("#[unit", "#[ref_unit")):
                if seen:
                    res.append(("/// about the next unit", "#[allow(dead_code)]")[k % 2])
                    k += 1
                seen = True
            res.append(l)
        return res
    for m in list(out):
        if m["cls"] in ("two_ref_units", "scale_on_ref_unit", "unit_without_scale", "scale_or_prefix_without_ref_unit", "attribute_arguments"):
            il = interleave(m["lines"])
            if il != m["lines"]:
                out.append(dict(m, variant=m["variant"] + "+foreign_attributes_between", lines=il, parent=interleave(m["parent"])))
    return out


def program(base_defs, lines):
    src = ["use quantities::prelude::*;", ""]
    for d in base_defs:
        src.extend(defgen.emit_definition(d))
        src.append("")
    first = len(src) + 1
    src.extend(lines)
    last = len(src)
    src += ["", "fn main() {}"]
    return "\n".join(src) + "\n", first, last


def run_backend(b, seed, rounds):
    part = fw.Part()
    rng = Rng("%s/C12/%s" % (seed, b))
    examples = {}
    meta = {}
    n = 0
    for rd in range(rounds):
        g = defgen.DefGen(rng.fork("g%d" % rd), tag="R%d" % rd)
        for m in mutations(rng, g):
            n += 1
            bad_src, first, last = program(m["base"], m["lines"])
            good_src, _, _ = program(m.get("base_parent", m["base"]), m["parent"])
            tb, tg = "bad%04d" % n, "ctl%04d" % n
            examples[tb] = bad_src
            examples[tg] = good_src
            meta[tb] = {"cls": m["cls"], "variant": m["variant"], "first": first, "last": last, "control": tg, "src": bad_src}
    # the repository's own ui programs, verbatim
    for path in sorted(glob.glob(os.path.join(REPO, "tests", "ui", "*.rs"))):
        name = "ui_" + os.path.basename(path)[:-3]
        src = open(path, encoding="utf-8").read()
        examples[name] = src
        meta[name] = {"cls": "tests_ui", "variant": os.path.basename(path)[:-3], "first": 1, "last": len(src.splitlines()), "control": None, "src": src}
    res, cdir, proc = pl.check_examples("c12", examples, b)
    if not any(r["artifact"] for r in res.values()) and not any(r["errors"] for r in res.values()):
        ok, err = fw.repo_builds(b)
        raise fw.Inconclusive("cargo produced neither artifacts nor diagnostics (%s): %s" % (b, proc.stderr[-400:]))
    for t, mt in meta.items():
        r = res[t]
        part.evals += 1
        ctl = mt["control"]

        def viol(kind, text):
            sig = {"backend": b, "kind": kind, "defect": mt["cls"], "variant": mt["variant"],
                   "class": {"kind": kind, "backend": b, "defect": mt["cls"], "variant": mt["variant"]}}
            part.violation(sig, "C12 %s: %s [%s/%s]: %s" % (kind, b, mt["cls"], mt["variant"], text),
                           {"module": "c12", "backend": b, "kind": "program", "source": mt["src"], "range": [mt["first"], mt["last"]], "diagnostics": r["errors"][:5]})
        if ctl is not None and not res[ctl]["ok"]:
            part.count("control_failed")
            part.notes.append("positive control of %s/%s does not compile: %s" % (mt["cls"], mt["variant"], (res[ctl]["errors"][:1] or [{}])[0].get("message")))
            continue
        if r["ok"] or not r["errors"]:
            if r["artifact"]:
                viol("accepted", "the malformed definition compiles:\n%s" % "\n".join(mt["src"].splitlines()[mt["first"] - 1:mt["last"]]))
            else:
                part.inconclusive.append("no verdict for target %s" % t)
            continue
        fname = t + ".rs"
        inside = [e for e in r["errors"] if e["file"] and e["file"].endswith(fname) and e["line"] is not None
                  and mt["first"] <= e["line"] <= mt["last"]]
        if not inside:
            viol("error_elsewhere", "rejected, but no error is reported inside the offending definition (lines %d-%d): %s" % (
                mt["first"], mt["last"], [(e["file"], e["line"], (e["message"] or "")[:80]) for e in r["errors"][:3]]))
        part.cell(mt["cls"], mt["variant"])
        part.count("rejected_in_place")
        part.sample({"backend": b, "defect": "%s/%s" % (mt["cls"], mt["variant"]),
                     "definition": mt["src"].splitlines()[mt["first"] - 1:mt["last"]],
                     "first_error": {k: r["errors"][0][k] for k in ("code", "message", "line")}}, limit=3)
    if part.counters.get("control_failed", 0) > max(2, len(meta) // 10):
        part.inconclusive.append("%d positive controls failed to compile (generator problem)" % part.counters["control_failed"])
    if not part.violations:
        pl.cleanup(cdir)
    part.counters["programs_%s" % b] = len(examples)
    return part


def main(tier, seed, nproc, t0):
    total = fw.Part()
    if tier == "quick":
        total.merge(run_backend("f64", seed, 1))
    else:
        for b in ("f64", "dec"):
            total.merge(run_backend(b, seed, 12))
    return fw.finish(PID, tier, seed, total, t0, RULE, min_evals=50,
                     assumptions=["the verdicts are rustc's (stable 1.95) on the real proc macro; only level, primary span and artifact presence are judged"])


def replay(path):
    with open(path, encoding="utf-8") as f:
        data = json.load(f)
    rp = data["replay"]
    res, cdir, _ = pl.check_examples("c12replay", {"prog": rp["source"]}, rp["backend"])
    r = res["prog"]
    inside = [e for e in r["errors"] if e["line"] is not None and rp["range"][0] <= e["line"] <= rp["range"][1]]
    print(json.dumps({"ok": r["ok"], "errors": r["errors"][:5]}, indent=1)[:3000])
    pl.cleanup(cdir)
    bad = r["ok"] or not inside
    print("REPLAY still violates" if bad else "REPLAY: rejected at the offending definition")
    return 1 if bad else 0
