"""Declared (expected) unit sets of the executor universe, from the hand-written tables."""
from fractions import Fraction
import defgen
from tables import Catalogue
from common import load_table

_cat = None
_syn = None


def catalogue():
    global _cat
    if _cat is None:
        _cat = Catalogue()
    return _cat


def synthetic():
    global _syn
    if _syn is None:
        _syn = {d["name"]: d for d in load_table("synthetic.json")["types"]}
    return _syn


def declared_units(ty):
    """Returns (has_ref, [entries in declaration order]); entry: variant,name,symbol,prefix,scale,const,is_ref,decl_pos."""
    if ty == "AmountT":
        return True, [{"variant": "One", "name": "One", "symbol": "", "prefix": None, "scale": Fraction(1),
                       "const": "ONE", "is_ref": True, "decl_pos": 0}]
    syn = synthetic()
    if ty in syn:
        d = syn[ty]
        ents = defgen.expected_registry(d)
        ents.sort(key=lambda e: e["decl_pos"])
        return d["ref"] is not None, ents
    cat = catalogue()
    q = cat.q[ty]
    ents = []
    for pos, u in enumerate(q["units"]):
        ents.append({"variant": defgen.variant_name(u["ident"]), "name": defgen.display_name(u["ident"]),
                     "symbol": u["symbol"], "prefix": u["prefix"], "scale": cat.value(ty, u["ident"]),
                     "const": defgen.const_name(u["ident"]), "is_ref": u["ident"] == q["ref_unit"], "decl_pos": pos,
                     "def": u["def"]})
    return q["ref_unit"] is not None, ents


def expected_order(ty):
    has_ref, ents = declared_units(ty)
    ents = list(ents)
    if has_ref:
        ents.sort(key=lambda e: (e["scale"], 0 if e["is_ref"] else 1, e["decl_pos"]))
    else:
        ents.sort(key=lambda e: e["name"].encode("utf-8"))
    return ents


def all_types(backend):
    cat = catalogue()
    ts = ["AmountT"] + [k for k in cat.q if not k.startswith("astro::")] + list(synthetic())
    if backend == "f64":
        ts += [k for k in cat.q if k.startswith("astro::")]
    return ts
