"""C17 - Serialisation round-trips values exactly."""
import json
from fractions import Fraction
import framework as fw
import corelane as cl
import amounts as am
import declared
import c08
from common import Rng, frac_of, f64_bits, bits_f64, f64_is_finite

PID = "C17"
BINS = ["x_core", "x_serde"]
RULE = ("every unit of all 14 catalogue types (exhaustive) x finite amounts (f64: 17-significant-digit doubles, subnormals, MAX, -0.0, random "
        "finite bit patterns; decimal: 18 fractional digits, trailing zeros, coefficients up to 1e37) through serde_json's value tree and through "
        "JSON text read back with the exactly rounding float parser; units alone likewise; injectivity over a per-type dictionary "
        "text -> (unit, exact value); cell = (backend,type,unit,path,amount class); non-trivial = amount not 0 or 1")
EXHAUSTIVE = True
CATALOGUE = ["Mass", "Length", "Duration", "Area", "Volume", "Speed", "Acceleration", "Force", "Energy", "Power", "Frequency",
             "DataVolume", "DataThroughput", "Temperature"]


def plan(env, tier, seed):
    n = 40 if tier == "quick" else 2500
    tasks = []
    for b, e in env.items():
        for ty in CATALOGUE:
            tasks.append({"backend": b, "ty": ty, "entry": e["reg"][ty], "bin": e["bins"]["x_serde"], "n": n, "seed": seed})
    return tasks


def finite_amount(rng, b):
    for _ in range(100):
        x, cls = c08.any_amount(rng, b)
        if b == "f64" and not f64_is_finite(x):
            continue
        return x, cls
    raise RuntimeError("no finite amount")


def work(task):
    part = fw.Part()
    b, ty, ent = task["backend"], task["ty"], task["entry"]
    rng = Rng("%s/C17/%s/%s" % (task["seed"], b, ty))
    cases = []
    for u in ent["units"]:
        cases.append({"kind": "unit", "ty": ty, "u": u["idx"], "reqs": [{"op": "unit", "ty": ty, "u": u["idx"]}]})
        for _ in range(task["n"]):
            x, cls = finite_amount(rng, b)
            cases.append({"kind": "rt", "ty": ty, "u": u["idx"], "x": x, "cls": cls, "reqs": [{"op": "rt", "ty": ty, "x": x, "u": u["idx"]}]})
    ctx = {"backend": b, "ty": ty, "entry": ent, "module": "c17", "dict": {}}
    fw.run_cases(part, task["bin"], cases, judge, ctx)
    part.counters["distinct_serialisations"] = part.counters.get("distinct_serialisations", 0) + len(ctx["dict"])
    return part


def judge(part, case, resps, ctx):
    b, ty, ent = ctx["backend"], ctx["ty"], ctx["entry"]
    r = resps[0]
    uu = ent["units"][case["u"]]
    part.evals += 1

    def viol(kind, text):
        sig = {"backend": b, "type": ty, "unit": uu["dbg"], "kind": kind, "class": {"kind": kind, "backend": b, "type": ty, "unit": uu["dbg"]}}
        part.violation(sig, "C17 %s: %s %s %s[%s]: %s" % (kind, b, ty, case.get("x"), uu["dbg"], text),
                       {"module": "c17", "backend": b, "bin": "x_serde", "ty": ty, "case": case, "resps": resps})
    if "panic" in r:
        viol("panic", "request panicked: %s" % r["panic"])
        return
    if case["kind"] == "unit":
        want = json.dumps(uu["dbg"])
        if r["text"] != want:
            viol("unit_text", "unit serialises as %s, expected the variant name %s" % (r["text"], want))
        if r["tree"] != uu["dbg"]:
            viol("unit_tree", "unit value tree is %r" % (r["tree"],))
        if r["s_rt"] != uu["dbg"] or r["v_rt"] != uu["dbg"]:
            viol("unit_roundtrip", "unit deserialises to %s / %s" % (r["s_rt"], r["v_rt"]))
        part.cell(b, ty, uu["dbg"], "unit")
        return
    if r.get("ser_err"):
        viol("serialise", "serialisation failed: %s" % r["ser_err"])
        return
    for path in ("v_rt", "s_rt"):
        q = r[path]
        if "panic" in q or "err" in q:
            viol("deserialise", "%s failed: %s" % (path, q.get("panic") or q.get("err")))
            continue
        if q["u"] != uu["dbg"]:
            viol("unit", "%s gives unit %s" % (path, q["u"]))
        if q["a"] != case["x"]:
            viol("amount", "%s gives amount %s, original %s (text %s)" % (path, q["a"], case["x"], r["text"]))
        if case["x"] not in ("0000000000000000", "3ff0000000000000", "0:0", "1:0"):
            part.cell(b, ty, uu["dbg"], path, case["cls"].split(":")[0])
    # the tree names the unit by its variant name
    tree = r["tree"]
    if not isinstance(tree, dict) or tree.get("unit") != uu["dbg"]:
        viol("tree_unit", "value tree %r does not carry the unit as its variant name" % (tree,))
    # injectivity: same text <=> same (unit, exact value)
    key = (uu["dbg"], str(frac_of(case["x"], b)), case["x"] if b == "f64" else None)
    d = ctx.get("dict")
    if d is not None:
        prev = d.get(r["text"])
        if prev is not None and prev[:2] != key[:2] and not (b == "f64" and prev[1] == key[1]):
            viol("injectivity", "serialisation %s is shared by %s and %s" % (r["text"], prev, key))
        d[r["text"]] = key
        part.count("serialisations")
    part.sample({"backend": b, "type": ty, "request": case["reqs"][0], "text": r["text"], "back": r["s_rt"],
                 "expectation": "identical unit and bit-identical amount"}, limit=1)


def post(part, env, tier, seed):
    if tier != "thorough":
        return
    import miri
    try:
        res = miri.serde_decimal(part, seed, PID)
        part.notes.append("miri (decimal serde text round trips incl. fpdec-core's unsafe parser): %s" % (res,))
    except fw.Inconclusive as e:
        part.notes.append("miri step inconclusive (sub-step only): %s" % e)
