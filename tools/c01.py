"""C01 - Unit conversion preserves the physical value."""
from fractions import Fraction
import framework as fw
import corelane as cl
import oracle as orc
from common import Rng, frac_of, f64_bits, bits_f64

SUB = Fraction(1, 2 ** 1073)          # two steps of the subnormal grid: the rounding of f64 where relative precision ends

PID = "C01"
BINS = ["x_core"]
RULE = ("every reference-unit type of the executor universe (catalogue, AmountT, astro [f64], synthetic) x ALL ordered unit pairs "
        "incl. the diagonal (exhaustive) x seeded amounts of the tolerance-safe classes plus, for f64, subnormal amounts and amounts just "
        "above the smallest normal number (judged with an additional absolute tolerance of two subnormal steps, scaled for an intermediate rounding in any evaluation order), both back-ends; a cell = "
        "(backend,type,from,to,amount class); non-trivial = source unit != target unit with a non-zero amount")


def plan(env, tier, seed):
    n = 16 if tier == "quick" else 400
    tasks = cl.split_tasks(env, lambda ty, e: e["kind"] == "ref")
    for t in tasks:
        t.update({"n": n, "seed": seed})
    return tasks


def work(task):
    part = fw.Part()
    b, ty, ent = task["backend"], task["ty"], task["entry"]
    rng = Rng("%s/C01/%s/%s" % (task["seed"], b, ty))
    cases = []
    for (u, v) in cl.unit_pairs(ent):
        if not cl.pair_ok(b, ent["units"][u]["scale"], ent["units"][v]["scale"]):
            part.count("pair_outside_decimal_ratio_range")
            continue
        for (x, cls) in cl.safe_amounts(rng, b, ent, u, task["n"]):
            cases.append({"ty": ty, "u": u, "v": v, "x": x, "cls": cls,
                          "reqs": [{"op": "convert", "ty": ty, "x": x, "u": u, "v": v}]})
        if b == "f64":
            for cls in ("subnormal", "min_normal"):
                if cls == "subnormal":
                    bits = rng.randint(1, (1 << 52) - 1) >> rng.choice([0, 0, 0, 8, 30, 51])
                else:
                    bits = (1 << 52) + (rng.randint(0, (1 << 52) - 1) >> rng.choice([0, 20, 52]))
                x = "%016x" % (max(bits, 1) | (rng.choice([0, 1]) << 63))
                cases.append({"ty": ty, "u": u, "v": v, "x": x, "cls": cls,
                              "reqs": [{"op": "convert", "ty": ty, "x": x, "u": u, "v": v}]})
    fw.run_cases(part, task["bin"], cases, judge, {"backend": b, "ty": ty, "entry": ent, "module": "c01"})
    return part


def judge(part, case, resps, ctx):
    b, ty, ent = ctx["backend"], ctx["ty"], ctx["entry"]
    r = resps[0]
    u, v = case["u"], case["v"]
    uu, vu = ent["units"][u], ent["units"][v]
    x = frac_of(case["x"], b)
    su, sv = uu["scale"], vu["scale"]
    part.evals += 1
    base_sig = {"backend": b, "type": ty, "from": uu["dbg"], "to": vu["dbg"]}

    def viol(kind, text):
        sig = dict(base_sig, kind=kind, cls=case["cls"])
        sig["class"] = {"kind": kind, "backend": b, "type": ty, "from": uu["dbg"], "to": vu["dbg"]}
        part.violation(sig, "C01 %s: %s %s %s[%s] -> [%s]: %s" % (kind, b, ty, case["x"], uu["dbg"], vu["dbg"], text),
                       {"module": "c01", "backend": b, "ty": ty, "case": case, "resps": resps})

    if "panic" in r:
        part.count("panic")
        viol("panic", "convert panicked on an in-range amount: %s" % r["panic"])
        return
    conv = r["conv"]
    if conv["u"] != vu["dbg"]:
        viol("unit", "result carries unit %s, requested %s" % (conv["u"], vu["dbg"]))
    if not orc.same_bits(r["equiv"], conv["a"], b):
        viol("equiv", "equiv_amount %s differs from the amount stored by convert %s" % (r["equiv"], conv["a"]))
    if u == v:
        part.count("diagonal")
        if not orc.same_bits(conv["a"], case["x"], b):
            viol("identity", "conversion to the own unit changed the amount to %s" % conv["a"])
        return
    part.count("off_diagonal")
    got = frac_of(conv["a"], b)
    want = x * su / sv
    tol = orc.conv_tol(b, x, su, sv)
    tiny = case["cls"] in ("subnormal", "min_normal")
    if tiny:
        # any straightforward evaluation order ((x*su)/sv, (x/sv)*su, x*(su/sv)) may round an intermediate on the subnormal grid
        tol += SUB * (1 + max(1 / sv, su))
    ratio = orc.check_close(got, want, tol)
    part.ratio(ratio, {"ty": ty, "x": case["x"], "from": uu["dbg"], "to": vu["dbg"], "backend": b})
    if ratio > 1:
        viol("magnitude", "amount %s (=%s) but exact magnitude-preserving amount is %s; err/tol=%.3g" % (
            conv["a"], float(got), float(want), float(ratio)))
    # round trip
    back = r["back"]
    if "panic" in back:
        viol("panic", "converting back panicked: %s" % back["panic"])
    else:
        if back["u"] != uu["dbg"]:
            viol("unit", "round trip carries unit %s, requested %s" % (back["u"], uu["dbg"]))
        gb = frac_of(back["a"], b)
        if b == "f64" and tiny:
            tolb = tol * sv / su + abs(x) * orc.F64_REL + SUB * (1 + max(1 / su, sv))
        elif b == "f64":
            tolb = abs(x) * orc.F64_REL * 2
        else:
            e1 = orc.dec_conv_bound(abs(x), su, sv)
            tolb = orc.dec_tol(e1 * sv / su + orc.dec_conv_bound(abs(want) + e1, sv, su))
        rb = orc.check_close(gb, x, tolb)
        part.ratio(rb, {"ty": ty, "x": case["x"], "from": uu["dbg"], "to": vu["dbg"], "backend": b, "roundtrip": True})
        if rb > 1:
            viol("roundtrip", "convert there and back gives %s, original %s; err/tol=%.3g" % (float(gb), float(x), float(rb)))
    if x != 0:
        part.cell(b, ty, uu["dbg"], vu["dbg"], case["cls"])
    part.sample({"backend": b, "type": ty, "request": case["reqs"][0], "response": r,
                 "expectation": "unit=%s, amount*%s ~= %s*%s" % (vu["dbg"], float(sv), float(x), float(su))}, limit=2)
