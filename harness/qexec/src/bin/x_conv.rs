//! x_conv: ConversionTable with run-time built tables and TEMPERATURE_CONVERTER. Serves C14 C18.
use qexec::*;
use quantities::{ConversionTable, Converter};

macro_rules! table_n {
    ($Q:ty, $N:expr, $ents:expr, $q:expr, $to:expr) => {{
        let arr: [(<$Q as Quantity>::UnitType, <$Q as Quantity>::UnitType, AmountT, AmountT); $N] =
            $ents.clone().try_into().unwrap_or_else(|_| panic!("HARNESS: table size"));
        let t: ConversionTable<$Q, $N> = ConversionTable { mappings: arr };
        t.convert(&$q, $to)
    }};
}

macro_rules! conv {
    ($Q:ty, $req:expr) => {{
        let req: &Value = $req;
        let units: Vec<<$Q as Quantity>::UnitType> = <$Q as Quantity>::iter_units().collect();
        let q = <$Q as Quantity>::new(amt(req, "x"), units[n(req, "u")]);
        let to = units[n(req, "v")];
        let ents: Vec<(<$Q as Quantity>::UnitType, <$Q as Quantity>::UnitType, AmountT, AmountT)> = req["table"]
            .as_array()
            .expect("HARNESS: table")
            .iter()
            .map(|e| {
                (
                    units[e[0].as_u64().unwrap() as usize],
                    units[e[1].as_u64().unwrap() as usize],
                    dec(e[2].as_str().unwrap()),
                    dec(e[3].as_str().unwrap()),
                )
            })
            .collect();
        let r = match ents.len() {
            0 => table_n!($Q, 0, ents, q, to),
            1 => table_n!($Q, 1, ents, q, to),
            2 => table_n!($Q, 2, ents, q, to),
            3 => table_n!($Q, 3, ents, q, to),
            4 => table_n!($Q, 4, ents, q, to),
            6 => table_n!($Q, 6, ents, q, to),
            8 => table_n!($Q, 8, ents, q, to),
            12 => table_n!($Q, 12, ents, q, to),
            _ => panic!("HARNESS: unsupported table size"),
        };
        // the amount type's own affine result for every entry (the oracle picks the first matching one)
        let x = amt(req, "x");
        let nat: Vec<Value> = ents.iter().map(|(_, _, f, o)| guard(|| json!(enc(x * *f + *o)))).collect();
        json!({"r": r.map(|q2| json!({"a": enc(q2.amount()), "u": format!("{:?}", q2.unit())})), "nat": nat})
    }};
}

fn handle(req: &Value) -> Value {
    match s(req, "op") {
        "table" => match s(req, "ty") {
            "SynFive" => conv!(qexec::synth::SynFive, req),
            "SynTwo" => conv!(qexec::synth::SynTwo, req),
            "Temperature" => conv!(quantities::temperature::Temperature, req),
            "SynA" => conv!(qexec::synth::SynA, req),
            "Length" => conv!(quantities::length::Length, req),
            other => panic!("HARNESS: unknown type {}", other),
        },
        "temp" => {
            use quantities::temperature::*;
            let units: Vec<TemperatureUnit> = Temperature::iter_units().collect();
            let q = Temperature::new(amt(req, "x"), units[n(req, "u")]);
            let to = units[n(req, "v")];
            let r = TEMPERATURE_CONVERTER.convert(&q, to);
            // optional second hop
            let r2 = match (r, opt_n(req, "w")) {
                (Some(q1), Some(w)) => TEMPERATURE_CONVERTER.convert(&q1, units[w]),
                _ => None,
            };
            let qj = |q2: Temperature| json!({"a": enc(q2.amount()), "u": format!("{:?}", q2.unit())});
            json!({"r": r.map(qj), "r2": r2.map(qj)})
        }
        "temp_table" => {
            use quantities::temperature::*;
            let t = TEMPERATURE_CONVERTER;
            let rows: Vec<Value> = t.mappings.iter().map(|(f, to, fa, of)| json!([format!("{:?}", f), format!("{:?}", to), enc(*fa), enc(*of)])).collect();
            json!({"rows": rows})
        }
        other => panic!("HARNESS: unknown op {}", other),
    }
}

fn main() {
    serve(handle);
}
