//! x_rate: Rate constructors, accessors, reciprocal, rate*q, q*rate, q/rate, Display.
//! Operator existence is probed at compile time of this program and reported at run time.
//! Serves C13 C15 C18.
use qexec::*;
use std::fmt::Debug;
use std::marker::PhantomData;
use std::ops::{Div, Mul};

pub struct P<A, B>(PhantomData<(A, B)>);
pub trait Fallback<A, B> {
    fn mul(&self, _a: A, _b: B) -> Value { Value::Null }
    fn div(&self, _a: A, _b: B) -> Value { Value::Null }
}
impl<A, B> Fallback<A, B> for P<A, B> {}

fn out<O: Quantity>(r: O) -> Value
where
    O::UnitType: Debug,
{
    json!({"a": enc(r.amount()), "u": format!("{:?}", r.unit()), "out": std::any::type_name::<O>()})
}

impl<A: Mul<B, Output = O>, B, O: Quantity> P<A, B>
where
    O::UnitType: Debug,
{
    pub fn mul(&self, a: A, b: B) -> Value {
        guard(|| out(a * b))
    }
}
impl<A: Div<B, Output = O>, B, O: Quantity> P<A, B>
where
    O::UnitType: Debug,
{
    pub fn div(&self, a: A, b: B) -> Value {
        guard(|| out(a / b))
    }
}

fn unit_of<Q: Quantity>(idx: usize) -> Q::UnitType {
    Q::iter_units().nth(idx).unwrap_or_else(|| panic!("HARNESS: unit index {} out of range", idx))
}

fn rate_json<TQ: Quantity, PQ: Quantity>(r: &Rate<TQ, PQ>) -> Value
where
    TQ::UnitType: Debug,
    PQ::UnitType: Debug,
{
    json!({
        "ta": enc(r.term_amount()), "tu": format!("{:?}", r.term_unit()),
        "pm": enc(r.per_unit_multiple()), "pu": format!("{:?}", r.per_unit()),
    })
}

macro_rules! pair {
    ($PQ:ty, $TQ:ty, $req:expr) => {{
        let req: &Value = $req;
        let ta = amt(req, "ta");
        let pm = amt(req, "pm");
        let tu = unit_of::<$TQ>(n(req, "tu"));
        let pu = unit_of::<$PQ>(n(req, "pu"));
        let rate: Rate<$TQ, $PQ> = if flag(req, "from_vals") {
            Rate::<$TQ, $PQ>::from_qty_vals(<$TQ as Quantity>::new(ta, tu), <$PQ as Quantity>::new(pm, pu))
        } else {
            Rate::<$TQ, $PQ>::new(ta, tu, pm, pu)
        };
        match s(req, "op") {
            "rate" => {
                let rec = rate.reciprocal();
                let rec2 = rec.reciprocal();
                json!({
                    "acc": rate_json(&rate), "rec": rate_json(&rec), "rec2": rate_json(&rec2),
                    "disp": guard(|| fmt_spec(&rate, req)),
                    "tsym": tu.symbol(), "psym": pu.symbol(),
                    "ta_disp": format!("{}", ta), "pm_disp": format!("{}", pm),
                })
            }
            "apply" => {
                // q: a value of the per quantity; t: a value of the term quantity
                let q = <$PQ as Quantity>::new(amt(req, "q"), unit_of::<$PQ>(n(req, "qu")));
                let t = <$TQ as Quantity>::new(amt(req, "t"), unit_of::<$TQ>(n(req, "tqu")));
                let rq = P::<Rate<$TQ, $PQ>, $PQ>(PhantomData).mul(rate, q);
                let qr = P::<$PQ, Rate<$TQ, $PQ>>(PhantomData).mul(q, rate);
                let tdr = P::<$TQ, Rate<$TQ, $PQ>>(PhantomData).div(t, rate);
                let rect = P::<Rate<$PQ, $TQ>, $TQ>(PhantomData).mul(rate.reciprocal(), t);
                // (rate * q) / rate
                let back = guard(|| {
                    let p = P::<Rate<$TQ, $PQ>, $PQ>(PhantomData).mul(rate, q);
                    match (p.get("a").and_then(|v| v.as_str()), p.get("u").and_then(|v| v.as_str())) {
                        (Some(a), Some(uname)) => {
                            let u2 = <$TQ as Quantity>::iter_units().find(|u| format!("{:?}", u) == uname).expect("unit");
                            let t2 = <$TQ as Quantity>::new(dec(a), u2);
                            P::<$TQ, Rate<$TQ, $PQ>>(PhantomData).div(t2, rate)
                        }
                        _ => Value::Null,
                    }
                });
                json!({"rq": rq, "qr": qr, "tdr": tdr, "rect": rect, "back": back})
            }
            other => panic!("HARNESS: unknown op {}", other),
        }
    }};
}

macro_rules! with_type {
    ($name:expr, $cb:ident, $($args:tt)*) => {
        match $name {
            "AmountT" => $cb!(quantities::AmountT, $($args)*),
            "Mass" => $cb!(quantities::mass::Mass, $($args)*),
            "Length" => $cb!(quantities::length::Length, $($args)*),
            "Duration" => $cb!(quantities::duration::Duration, $($args)*),
            "DataVolume" => $cb!(quantities::datavolume::DataVolume, $($args)*),
            "Temperature" => $cb!(quantities::temperature::Temperature, $($args)*),
            "SynA" => $cb!(qexec::synth::SynA, $($args)*),
            "SynOne" => $cb!(qexec::synth::SynOne, $($args)*),
            "SynX" => $cb!(qexec::synth::SynX, $($args)*),
            "SynC" => $cb!(qexec::synth::SynC, $($args)*),
            other => panic!("HARNESS: unknown type {}", other),
        }
    };
}

macro_rules! term_step {
    ($TQ:ty, $req:expr) => {{
        let pn = s($req, "pq");
        with_type!(pn, pair, $TQ, $req)
    }};
}

fn handle(req: &Value) -> Value {
    if s(req, "op") == "types" {
        return json!({"types": ["AmountT", "Mass", "Length", "Duration", "DataVolume", "Temperature", "SynA", "SynOne", "SynX", "SynC"]});
    }
    let tn = s(req, "tq");
    with_type!(tn, term_step, req)
}

fn main() {
    serve(handle);
}
