//! x_names: the UPPER_SNAKE unit constants and REF_UNIT constants, named as a user would.
//! Serves C07 C09.
mod names_gen;
use qexec::*;

fn handle(req: &Value) -> Value {
    match s(req, "op") {
        "constants" => {
            let v: Vec<Value> = names_gen::constants()
                .into_iter()
                .map(|(ty, c, dbg, via_new)| json!({"ty": ty, "const": c, "dbg": dbg, "via_new": via_new}))
                .collect();
            json!({"constants": v})
        }
        "ref_units" => {
            let v: Vec<Value> = names_gen::ref_units()
                .into_iter()
                .map(|(ty, q, u)| json!({"ty": ty, "ref_q": q, "ref_u": u}))
                .collect();
            json!({"ref_units": v})
        }
        other => panic!("HARNESS: unknown op {}", other),
    }
}

fn main() {
    serve(handle);
}
