//! x_si: the SIPrefix table. Serves C16.
use qexec::*;

fn pj(p: SIPrefix) -> Value {
    json!({"dbg": format!("{:?}", p), "name": p.name(), "abbr": p.abbr(), "exp": p.exp()})
}

fn handle(req: &Value) -> Value {
    match s(req, "op") {
        "iter" => json!({"prefixes": SIPrefix::iter().map(|p| pj(*p)).collect::<Vec<_>>()}),
        "from_exp" => {
            let e = req.get("e").and_then(|v| v.as_i64()).expect("HARNESS: e") as i8;
            json!({"r": SIPrefix::from_exp(e).map(pj)})
        }
        "from_abbr" => json!({"r": SIPrefix::from_abbr(s(req, "t")).map(pj)}),
        other => panic!("HARNESS: unknown op {}", other),
    }
}

fn main() {
    serve(handle);
}
