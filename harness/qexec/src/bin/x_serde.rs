//! x_serde: serde_json round trips (value tree and text) of catalogue values and units. Serves C17.
use qexec::*;

macro_rules! rt {
    ($Q:ty, $req:expr) => {{
        let req: &Value = $req;
        let idx = n(req, "u");
        let u = <$Q as Quantity>::iter_units().nth(idx).unwrap_or_else(|| panic!("HARNESS: unit index"));
        match s(req, "op") {
            "rt" => {
                let q = <$Q as Quantity>::new(amt(req, "x"), u);
                let back = |r: Result<$Q, String>| match r {
                    Ok(q2) => json!({"a": enc(q2.amount()), "u": format!("{:?}", q2.unit())}),
                    Err(e) => json!({"err": e}),
                };
                let tree = serde_json::to_value(&q).map_err(|e| e.to_string());
                let text = serde_json::to_string(&q).map_err(|e| e.to_string());
                json!({
                    "tree": tree.clone().ok(),
                    "text": text.clone().ok(),
                    "ser_err": tree.clone().err().or(text.clone().err()),
                    "v_rt": guard(|| back(tree.clone().and_then(|t| serde_json::from_value::<$Q>(t).map_err(|e| e.to_string())))),
                    "s_rt": guard(|| back(text.clone().and_then(|t| serde_json::from_str::<$Q>(&t).map_err(|e| e.to_string())))),
                })
            }
            "unit" => {
                let text = serde_json::to_string(&u).map_err(|e| e.to_string());
                let tree = serde_json::to_value(&u).map_err(|e| e.to_string());
                json!({
                    "text": text.clone().ok(),
                    "tree": tree.clone().ok(),
                    "s_rt": text.clone().and_then(|t| serde_json::from_str::<<$Q as Quantity>::UnitType>(&t).map_err(|e| e.to_string())).map(|u2| format!("{:?}", u2)).ok(),
                    "v_rt": tree.clone().and_then(|t| serde_json::from_value::<<$Q as Quantity>::UnitType>(t).map_err(|e| e.to_string())).map(|u2| format!("{:?}", u2)).ok(),
                    "dbg": format!("{:?}", u),
                })
            }
            "de" => {
                // deserialise a given text (injectivity / foreign text probes)
                let t = s(req, "t");
                match serde_json::from_str::<$Q>(t) {
                    Ok(q2) => json!({"a": enc(q2.amount()), "u": format!("{:?}", q2.unit())}),
                    Err(e) => json!({"err": e.to_string()}),
                }
            }
            other => panic!("HARNESS: unknown op {}", other),
        }
    }};
}

fn handle(req: &Value) -> Value {
    match s(req, "ty") {
        "Mass" => rt!(quantities::mass::Mass, req),
        "Length" => rt!(quantities::length::Length, req),
        "Duration" => rt!(quantities::duration::Duration, req),
        "Area" => rt!(quantities::area::Area, req),
        "Volume" => rt!(quantities::volume::Volume, req),
        "Speed" => rt!(quantities::speed::Speed, req),
        "Acceleration" => rt!(quantities::acceleration::Acceleration, req),
        "Force" => rt!(quantities::force::Force, req),
        "Energy" => rt!(quantities::energy::Energy, req),
        "Power" => rt!(quantities::power::Power, req),
        "Frequency" => rt!(quantities::frequency::Frequency, req),
        "DataVolume" => rt!(quantities::datavolume::DataVolume, req),
        "DataThroughput" => rt!(quantities::datathroughput::DataThroughput, req),
        "Temperature" => rt!(quantities::temperature::Temperature, req),
        other => panic!("HARNESS: unknown type {}", other),
    }
}

fn main() {
    serve(handle);
}
