//! x_derived: every product / quotient of two values of the type universe, in every
//! owned/borrowed operand form, and the trait-probe matrix (DESIGN.md 2.3).
//! Whether `L op R` exists is decided by trait resolution at compile time of THIS
//! program (inherent method shadows the blanket fallback), and reported at run time;
//! so a changed derivation shows up as data, not as a build failure.
//! Serves C04 C05 C06 C18.
use qexec::*;
use std::any::type_name;
use std::fmt::Debug;
use std::marker::PhantomData;
use std::ops::{Add, Div, Mul, Sub};

pub struct P<L, R>(PhantomData<(L, R)>);

fn out<O>(r: O) -> Value
where
    O: HasRefUnit,
    O::UnitType: LinearScaledUnit + Debug,
{
    json!({
        "a": enc(r.amount()),
        "u": format!("{:?}", r.unit()),
        "scale": enc(r.unit().scale()),
        "is_ref": r.unit().is_ref_unit(),
        "prefix": r.unit().si_prefix().map(|p| format!("{:?}", p)),
        "out": type_name::<O>(),
    })
}

/// Blanket fallbacks: chosen when the operator impl does not exist.
pub trait Fallback<L, R> {
    fn mul_oo(&self, _a: L, _b: R) -> Value { Value::Null }
    fn mul_ro(&self, _a: L, _b: R) -> Value { Value::Null }
    fn mul_or(&self, _a: L, _b: R) -> Value { Value::Null }
    fn mul_rr(&self, _a: L, _b: R) -> Value { Value::Null }
    fn div_oo(&self, _a: L, _b: R) -> Value { Value::Null }
    fn div_ro(&self, _a: L, _b: R) -> Value { Value::Null }
    fn div_or(&self, _a: L, _b: R) -> Value { Value::Null }
    fn div_rr(&self, _a: L, _b: R) -> Value { Value::Null }
    fn t_add(&self) -> Option<&'static str> { None }
    fn t_sub(&self) -> Option<&'static str> { None }
    fn t_mul(&self) -> Option<&'static str> { None }
    fn t_div(&self) -> Option<&'static str> { None }
    fn t_mul_ro(&self) -> Option<&'static str> { None }
    fn t_mul_or(&self) -> Option<&'static str> { None }
    fn t_mul_rr(&self) -> Option<&'static str> { None }
    fn t_div_ro(&self) -> Option<&'static str> { None }
    fn t_div_or(&self) -> Option<&'static str> { None }
    fn t_div_rr(&self) -> Option<&'static str> { None }
    fn t_eq(&self) -> bool { false }
    fn t_ord(&self) -> bool { false }
}
impl<L, R> Fallback<L, R> for P<L, R> {}

macro_rules! val_probe {
    ($name:ident, $tr:ident, $lt:ty, $rt:ty, |$a:ident, $b:ident| $e:expr, [$($hr:tt)*]) => {
        impl<L: Copy, R: Copy, O> P<L, R>
        where
            $($hr)* $lt: $tr<$rt, Output = O>,
            O: HasRefUnit,
            O::UnitType: LinearScaledUnit + Debug,
        {
            pub fn $name(&self, $a: L, $b: R) -> Value {
                guard(|| out($e))
            }
        }
    };
}
val_probe!(mul_oo, Mul, L, R, |a, b| a * b, []);
val_probe!(mul_ro, Mul, &'x L, R, |a, b| &a * b, [for<'x>]);
val_probe!(mul_or, Mul, L, &'x R, |a, b| a * &b, [for<'x>]);
val_probe!(mul_rr, Mul, &'x L, &'x R, |a, b| &a * &b, [for<'x>]);
val_probe!(div_oo, Div, L, R, |a, b| a / b, []);
val_probe!(div_ro, Div, &'x L, R, |a, b| &a / b, [for<'x>]);
val_probe!(div_or, Div, L, &'x R, |a, b| a / &b, [for<'x>]);
val_probe!(div_rr, Div, &'x L, &'x R, |a, b| &a / &b, [for<'x>]);

macro_rules! ty_probe {
    ($name:ident, $tr:ident, $lt:ty, $rt:ty, [$($hr:tt)*]) => {
        impl<L, R, O> P<L, R>
        where
            $($hr)* $lt: $tr<$rt, Output = O>,
        {
            pub fn $name(&self) -> Option<&'static str> {
                Some(type_name::<O>())
            }
        }
    };
}
ty_probe!(t_add, Add, L, R, []);
ty_probe!(t_sub, Sub, L, R, []);
ty_probe!(t_mul, Mul, L, R, []);
ty_probe!(t_div, Div, L, R, []);
ty_probe!(t_mul_ro, Mul, &'x L, R, [for<'x>]);
ty_probe!(t_mul_or, Mul, L, &'x R, [for<'x>]);
ty_probe!(t_mul_rr, Mul, &'x L, &'x R, [for<'x>]);
ty_probe!(t_div_ro, Div, &'x L, R, [for<'x>]);
ty_probe!(t_div_or, Div, L, &'x R, [for<'x>]);
ty_probe!(t_div_rr, Div, &'x L, &'x R, [for<'x>]);

impl<L: PartialEq<R>, R> P<L, R> {
    pub fn t_eq(&self) -> bool {
        true
    }
}
impl<L: PartialOrd<R>, R> P<L, R> {
    pub fn t_ord(&self) -> bool {
        true
    }
}

fn qty<Q: Quantity>(x: AmountT, idx: usize) -> Q {
    let u = Q::iter_units().nth(idx).unwrap_or_else(|| panic!("HARNESS: unit index {} out of range", idx));
    Q::new(x, u)
}

pub struct ProbeRow {
    pub l: &'static str,
    pub r: &'static str,
    pub names: [Option<&'static str>; 10],
    pub eq: bool,
    pub ord: bool,
}

macro_rules! probe_row {
    ($L:ty, $R:ty) => {{
        let p = P::<$L, $R>(PhantomData);
        ProbeRow {
            l: type_name::<$L>(),
            r: type_name::<$R>(),
            names: [p.t_add(), p.t_sub(), p.t_mul(), p.t_div(), p.t_mul_ro(), p.t_mul_or(), p.t_mul_rr(), p.t_div_ro(), p.t_div_or(), p.t_div_rr()],
            eq: p.t_eq(),
            ord: p.t_ord(),
        }
    }};
}

/// Cross product of the type universe: one probe row per ordered pair.
macro_rules! cross {
    ($v:ident; [$($L:ty),*]; $Rs:tt) => { $( cross!(@row $v; $L; $Rs); )* };
    (@row $v:ident; $L:ty; [$($R:ty),*]) => { $( $v.push(probe_row!($L, $R)); )* };
}

macro_rules! universe {
    ($v:ident) => {
        cross!($v;
            [quantities::AmountT, quantities::mass::Mass, quantities::length::Length, quantities::duration::Duration,
             quantities::area::Area, quantities::volume::Volume, quantities::speed::Speed,
             quantities::acceleration::Acceleration, quantities::force::Force, quantities::energy::Energy,
             quantities::power::Power, quantities::frequency::Frequency, quantities::datavolume::DataVolume,
             quantities::datathroughput::DataThroughput, quantities::temperature::Temperature,
             qexec::synth::SynA, qexec::synth::SynK, qexec::synth::SynP, qexec::synth::SynS, qexec::synth::SynQ,
             qexec::synth::SynI, qexec::synth::SynTwo, qexec::synth::SynFive, qexec::synth::SynOne];
            [quantities::AmountT, quantities::mass::Mass, quantities::length::Length, quantities::duration::Duration,
             quantities::area::Area, quantities::volume::Volume, quantities::speed::Speed,
             quantities::acceleration::Acceleration, quantities::force::Force, quantities::energy::Energy,
             quantities::power::Power, quantities::frequency::Frequency, quantities::datavolume::DataVolume,
             quantities::datathroughput::DataThroughput, quantities::temperature::Temperature,
             qexec::synth::SynA, qexec::synth::SynK, qexec::synth::SynP, qexec::synth::SynS, qexec::synth::SynQ,
             qexec::synth::SynI, qexec::synth::SynTwo, qexec::synth::SynFive, qexec::synth::SynOne]);
    };
}

#[cfg(feature = "astro")]
macro_rules! astro_universe {
    ($v:ident) => {
        cross!($v;
            [quantities::AmountT, astronomical_quantities::Mass, astronomical_quantities::Length,
             astronomical_quantities::Duration, astronomical_quantities::Speed];
            [quantities::AmountT, astronomical_quantities::Mass, astronomical_quantities::Length,
             astronomical_quantities::Duration, astronomical_quantities::Speed]);
        // astro types against the main crate's types of the same name (must not mix)
        cross!($v;
            [astronomical_quantities::Mass, astronomical_quantities::Length, astronomical_quantities::Duration, astronomical_quantities::Speed];
            [quantities::mass::Mass, quantities::length::Length, quantities::duration::Duration, quantities::speed::Speed]);
        cross!($v;
            [quantities::mass::Mass, quantities::length::Length, quantities::duration::Duration, quantities::speed::Speed];
            [astronomical_quantities::Mass, astronomical_quantities::Length, astronomical_quantities::Duration, astronomical_quantities::Speed]);
    };
}

fn all_probes() -> Vec<ProbeRow> {
    let mut v: Vec<ProbeRow> = Vec::new();
    universe!(v);
    #[cfg(feature = "astro")]
    astro_universe!(v);
    v
}

/// The four operand forms of one expected operator instance.
macro_rules! val4 {
    ($L:ty, $R:ty, mul, $req:expr) => {{
        let req: &Value = $req;
        let p = P::<$L, $R>(PhantomData);
        let a: $L = qty::<$L>(amt(req, "x"), n(req, "u"));
        let b: $R = qty::<$R>(amt(req, "y"), n(req, "v"));
        [p.mul_oo(a, b), p.mul_ro(a, b), p.mul_or(a, b), p.mul_rr(a, b)]
    }};
    ($L:ty, $R:ty, div, $req:expr) => {{
        let req: &Value = $req;
        let p = P::<$L, $R>(PhantomData);
        let a: $L = qty::<$L>(amt(req, "x"), n(req, "u"));
        let b: $R = qty::<$R>(amt(req, "y"), n(req, "v"));
        [p.div_oo(a, b), p.div_ro(a, b), p.div_or(a, b), p.div_rr(a, b)]
    }};
}

mod instances_gen;

fn handle(req: &Value) -> Value {
    match s(req, "op") {
        "native" => {
            // the amount type's own product / quotient (reference for "exactly the amount type's own")
            let x = amt(req, "x");
            let y = amt(req, "y");
            json!({"mul": guard(|| json!(enc(x * y))), "div": guard(|| json!(enc(x / y)))})
        }
        "types" => {
            let tl: Vec<Value> = type_list().iter().map(|(n, k)| json!({"ty": n, "kind": k})).collect();
            json!({"types": tl, "backend": BACKEND})
        }
        "probes" => {
            let rows: Vec<Value> = all_probes()
                .into_iter()
                .map(|p| json!({"l": p.l, "r": p.r, "t": p.names, "eq": p.eq, "ord": p.ord}))
                .collect();
            json!({"rows": rows, "cols": ["add", "sub", "mul", "div", "mul_ro", "mul_or", "mul_rr", "div_ro", "div_or", "div_rr"]})
        }
        "instances" => json!({"instances": instances_gen::INSTANCES}),
        "bin" => {
            let r = instances_gen::dispatch(s(req, "l"), s(req, "o"), s(req, "r"), req);
            match r {
                Some([oo, ro, or, rr]) => json!({"oo": oo, "ro": ro, "or": or, "rr": rr}),
                None => panic!("HARNESS: no such operator instance in the executor table"),
            }
        }
        other => panic!("HARNESS: unknown op {}", other),
    }
}

fn main() {
    serve(handle);
}
