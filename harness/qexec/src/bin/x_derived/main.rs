//! x_derived: every product / quotient of two values of the type universe, in every
//! owned/borrowed operand form, and the trait-probe matrix (DESIGN.md 2.3).
//! Whether `L op R` exists is decided by trait resolution at compile time of THIS
//! program (inherent method shadows the blanket fallback), and reported at run time;
//! so a changed derivation shows up as data, not as a build failure.
//! Serves C04 C05 C06 C18.
use qexec::*;
use qexec::probe::*;

macro_rules! universe {
    ($v:ident) => {
        cross!($v;
            [quantities::AmountT, quantities::mass::Mass, quantities::length::Length, quantities::duration::Duration,
             quantities::area::Area, quantities::volume::Volume, quantities::speed::Speed,
             quantities::acceleration::Acceleration, quantities::force::Force, quantities::energy::Energy,
             quantities::power::Power, quantities::frequency::Frequency, quantities::datavolume::DataVolume,
             quantities::datathroughput::DataThroughput, quantities::temperature::Temperature,
             qexec::synth::SynA, qexec::synth::SynK, qexec::synth::SynP, qexec::synth::SynS, qexec::synth::SynQ,
             qexec::synth::SynI, qexec::synth::SynT, qexec::synth::SynTwo, qexec::synth::SynFive, qexec::synth::SynOne];
            [quantities::AmountT, quantities::mass::Mass, quantities::length::Length, quantities::duration::Duration,
             quantities::area::Area, quantities::volume::Volume, quantities::speed::Speed,
             quantities::acceleration::Acceleration, quantities::force::Force, quantities::energy::Energy,
             quantities::power::Power, quantities::frequency::Frequency, quantities::datavolume::DataVolume,
             quantities::datathroughput::DataThroughput, quantities::temperature::Temperature,
             qexec::synth::SynA, qexec::synth::SynK, qexec::synth::SynP, qexec::synth::SynS, qexec::synth::SynQ,
             qexec::synth::SynI, qexec::synth::SynT, qexec::synth::SynTwo, qexec::synth::SynFive, qexec::synth::SynOne]);
    };
}

#[cfg(feature = "astro")]
macro_rules! astro_universe {
    ($v:ident) => {
        cross!($v;
            [quantities::AmountT, astronomical_quantities::Mass, astronomical_quantities::Length,
             astronomical_quantities::Duration, astronomical_quantities::Speed];
            [quantities::AmountT, astronomical_quantities::Mass, astronomical_quantities::Length,
             astronomical_quantities::Duration, astronomical_quantities::Speed]);
        // astro types against the main crate's types of the same name (must not mix)
        cross!($v;
            [astronomical_quantities::Mass, astronomical_quantities::Length, astronomical_quantities::Duration, astronomical_quantities::Speed];
            [quantities::mass::Mass, quantities::length::Length, quantities::duration::Duration, quantities::speed::Speed]);
        cross!($v;
            [quantities::mass::Mass, quantities::length::Length, quantities::duration::Duration, quantities::speed::Speed];
            [astronomical_quantities::Mass, astronomical_quantities::Length, astronomical_quantities::Duration, astronomical_quantities::Speed]);
    };
}

fn all_probes() -> Vec<ProbeRow> {
    let mut v: Vec<ProbeRow> = Vec::new();
    universe!(v);
    #[cfg(feature = "astro")]
    astro_universe!(v);
    v
}

mod instances_gen;

fn handle(req: &Value) -> Value {
    match s(req, "op") {
        "native" => {
            // the amount type's own product / quotient (reference for "exactly the amount type's own")
            let x = amt(req, "x");
            let y = amt(req, "y");
            json!({"mul": guard(|| json!(enc(x * y))), "div": guard(|| json!(enc(x / y)))})
        }
        "types" => {
            let tl: Vec<Value> = type_list().iter().map(|(n, k)| json!({"ty": n, "kind": k})).collect();
            json!({"types": tl, "backend": BACKEND})
        }
        "probes" => {
            let rows: Vec<Value> = all_probes()
                .into_iter()
                .map(|p| json!({"l": p.l, "r": p.r, "t": p.names, "eq": p.eq, "ord": p.ord}))
                .collect();
            json!({"rows": rows, "cols": ["add", "sub", "mul", "div", "mul_ro", "mul_or", "mul_rr", "div_ro", "div_or", "div_rr"]})
        }
        "instances" => json!({"instances": instances_gen::INSTANCES}),
        "bin" => {
            let r = instances_gen::dispatch(s(req, "l"), s(req, "o"), s(req, "r"), req);
            match r {
                Some([oo, ro, or, rr]) => json!({"oo": oo, "ro": ro, "or": or, "rr": rr}),
                None => panic!("HARNESS: no such operator instance in the executor table"),
            }
        }
        other => panic!("HARNESS: unknown op {}", other),
    }
}

fn main() {
    serve(handle);
}
