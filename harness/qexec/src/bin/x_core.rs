//! x_core: the generic Unit / LinearScaledUnit / Quantity / HasRefUnit surface of every type.
//! Serves C01 C02 C03 C05(_fit) C08 C09 C10 C15 C18.
use qexec::*;

fn handle(req: &Value) -> Value {
    let op = s(req, "op");
    if op == "types" {
        let tl: Vec<Value> = type_list().iter().map(|(n, k)| json!({"ty": n, "kind": k})).collect();
        return json!({"types": tl, "backend": BACKEND, "one": enc(AMNT_ONE), "zero": enc(AMNT_ZERO)});
    }
    let ty = s(req, "ty");
    dispatch_type!(ty, ref_type, noref_type, single_type, req)
}

fn main() {
    serve(handle);
}
