//! Run-time trait probes: whether `L op R` exists is decided by trait resolution at compile
//! time of the instantiating program (inherent method shadows the blanket fallback) and
//! reported at run time (DESIGN.md 2.3). Call sites need `use qexec::*; use qexec::probe::*;`.
use crate::*;
use std::any::type_name;
use std::fmt::Debug;
use std::marker::PhantomData;
use std::ops::{Add, Div, Mul, Sub};

pub struct P<L, R>(pub PhantomData<(L, R)>);

pub fn out<O>(r: O) -> Value
where
    O: HasRefUnit,
    O::UnitType: LinearScaledUnit + Debug,
{
    json!({
        "a": enc(r.amount()),
        "u": format!("{:?}", r.unit()),
        "scale": enc(r.unit().scale()),
        "is_ref": r.unit().is_ref_unit(),
        "prefix": r.unit().si_prefix().map(|p| format!("{:?}", p)),
        "out": type_name::<O>(),
    })
}

/// Blanket fallbacks: chosen when the operator impl does not exist.
pub trait Fallback<L, R> {
    fn mul_oo(&self, _a: L, _b: R) -> Value { Value::Null }
    fn mul_ro(&self, _a: L, _b: R) -> Value { Value::Null }
    fn mul_or(&self, _a: L, _b: R) -> Value { Value::Null }
    fn mul_rr(&self, _a: L, _b: R) -> Value { Value::Null }
    fn div_oo(&self, _a: L, _b: R) -> Value { Value::Null }
    fn div_ro(&self, _a: L, _b: R) -> Value { Value::Null }
    fn div_or(&self, _a: L, _b: R) -> Value { Value::Null }
    fn div_rr(&self, _a: L, _b: R) -> Value { Value::Null }
    fn t_add(&self) -> Option<&'static str> { None }
    fn t_sub(&self) -> Option<&'static str> { None }
    fn t_mul(&self) -> Option<&'static str> { None }
    fn t_div(&self) -> Option<&'static str> { None }
    fn t_mul_ro(&self) -> Option<&'static str> { None }
    fn t_mul_or(&self) -> Option<&'static str> { None }
    fn t_mul_rr(&self) -> Option<&'static str> { None }
    fn t_div_ro(&self) -> Option<&'static str> { None }
    fn t_div_or(&self) -> Option<&'static str> { None }
    fn t_div_rr(&self) -> Option<&'static str> { None }
    fn t_eq(&self) -> bool { false }
    fn t_ord(&self) -> bool { false }
}
impl<L, R> Fallback<L, R> for P<L, R> {}

macro_rules! val_probe {
    ($name:ident, $tr:ident, $lt:ty, $rt:ty, |$a:ident, $b:ident| $e:expr, [$($hr:tt)*]) => {
        impl<L: Copy, R: Copy, O> P<L, R>
        where
            $($hr)* $lt: $tr<$rt, Output = O>,
            O: HasRefUnit,
            O::UnitType: LinearScaledUnit + Debug,
        {
            pub fn $name(&self, $a: L, $b: R) -> Value {
                guard(|| out($e))
            }
        }
    };
}
val_probe!(mul_oo, Mul, L, R, |a, b| a * b, []);
val_probe!(mul_ro, Mul, &'x L, R, |a, b| &a * b, [for<'x>]);
val_probe!(mul_or, Mul, L, &'x R, |a, b| a * &b, [for<'x>]);
val_probe!(mul_rr, Mul, &'x L, &'x R, |a, b| &a * &b, [for<'x>]);
val_probe!(div_oo, Div, L, R, |a, b| a / b, []);
val_probe!(div_ro, Div, &'x L, R, |a, b| &a / b, [for<'x>]);
val_probe!(div_or, Div, L, &'x R, |a, b| a / &b, [for<'x>]);
val_probe!(div_rr, Div, &'x L, &'x R, |a, b| &a / &b, [for<'x>]);

macro_rules! ty_probe {
    ($name:ident, $tr:ident, $lt:ty, $rt:ty, [$($hr:tt)*]) => {
        impl<L, R, O> P<L, R>
        where
            $($hr)* $lt: $tr<$rt, Output = O>,
        {
            pub fn $name(&self) -> Option<&'static str> {
                Some(type_name::<O>())
            }
        }
    };
}
ty_probe!(t_add, Add, L, R, []);
ty_probe!(t_sub, Sub, L, R, []);
ty_probe!(t_mul, Mul, L, R, []);
ty_probe!(t_div, Div, L, R, []);
ty_probe!(t_mul_ro, Mul, &'x L, R, [for<'x>]);
ty_probe!(t_mul_or, Mul, L, &'x R, [for<'x>]);
ty_probe!(t_mul_rr, Mul, &'x L, &'x R, [for<'x>]);
ty_probe!(t_div_ro, Div, &'x L, R, [for<'x>]);
ty_probe!(t_div_or, Div, L, &'x R, [for<'x>]);
ty_probe!(t_div_rr, Div, &'x L, &'x R, [for<'x>]);

impl<L: PartialEq<R>, R> P<L, R> {
    pub fn t_eq(&self) -> bool {
        true
    }
}
impl<L: PartialOrd<R>, R> P<L, R> {
    pub fn t_ord(&self) -> bool {
        true
    }
}

pub fn qty<Q: Quantity>(x: AmountT, idx: usize) -> Q {
    let u = Q::iter_units().nth(idx).unwrap_or_else(|| panic!("HARNESS: unit index {} out of range", idx));
    Q::new(x, u)
}

pub struct ProbeRow {
    pub l: &'static str,
    pub r: &'static str,
    pub names: [Option<&'static str>; 10],
    pub eq: bool,
    pub ord: bool,
}

#[macro_export]
macro_rules! probe_row {
    ($L:ty, $R:ty) => {{
        let p = $crate::probe::P::<$L, $R>(std::marker::PhantomData);
        $crate::probe::ProbeRow {
            l: std::any::type_name::<$L>(),
            r: std::any::type_name::<$R>(),
            names: [p.t_add(), p.t_sub(), p.t_mul(), p.t_div(), p.t_mul_ro(), p.t_mul_or(), p.t_mul_rr(), p.t_div_ro(), p.t_div_or(), p.t_div_rr()],
            eq: p.t_eq(),
            ord: p.t_ord(),
        }
    }};
}

/// Cross product of the type universe: one probe row per ordered pair.
#[macro_export]
macro_rules! cross {
    ($v:ident; [$($L:ty),*]; $Rs:tt) => { $( cross!(@row $v; $L; $Rs); )* };
    (@row $v:ident; $L:ty; [$($R:ty),*]) => { $( $v.push(probe_row!($L, $R)); )* };
}

/// The four operand forms of one expected operator instance.
#[macro_export]
macro_rules! val4 {
    ($L:ty, $R:ty, mul, $req:expr) => {{
        let req: &Value = $req;
        let p = $crate::probe::P::<$L, $R>(std::marker::PhantomData);
        let a: $L = $crate::probe::qty::<$L>(amt(req, "x"), n(req, "u"));
        let b: $R = $crate::probe::qty::<$R>(amt(req, "y"), n(req, "v"));
        [p.mul_oo(a, b), p.mul_ro(a, b), p.mul_or(a, b), p.mul_rr(a, b)]
    }};
    ($L:ty, $R:ty, div, $req:expr) => {{
        let req: &Value = $req;
        let p = $crate::probe::P::<$L, $R>(std::marker::PhantomData);
        let a: $L = $crate::probe::qty::<$L>(amt(req, "x"), n(req, "u"));
        let b: $R = $crate::probe::qty::<$R>(amt(req, "y"), n(req, "v"));
        [p.div_oo(a, b), p.div_ro(a, b), p.div_or(a, b), p.div_rr(a, b)]
    }};
}

