//! Handler macros for the generic Unit / LinearScaledUnit / Quantity / HasRefUnit surface of one type.
//! Instantiated per concrete type (x_core for the fixed universe, generated executors for generated types);
//! the call site needs `use qexec::*;`.

#[macro_export]
macro_rules! qj {
    ($q:expr) => {{
        let q = $q;
        json!({"a": enc(q.amount()), "u": format!("{:?}", q.unit())})
    }};
}

#[macro_export]
macro_rules! unit_at {
    ($Q:ty, $req:expr, $k:expr) => {{
        let idx = n($req, $k);
        <$Q as Quantity>::iter_units().nth(idx).unwrap_or_else(|| panic!("HARNESS: unit index {} out of range", idx))
    }};
}

#[macro_export]
macro_rules! cmp_block {
    ($a:expr, $b:expr) => {{
        let a = $a;
        let b = $b;
        json!({
            "eq": guard(|| json!(a == b)),
            "ne": guard(|| json!(a != b)),
            "lt": guard(|| json!(a < b)),
            "le": guard(|| json!(a <= b)),
            "gt": guard(|| json!(a > b)),
            "ge": guard(|| json!(a >= b)),
            "pc": guard(|| ord_str(PartialOrd::partial_cmp(&a, &b))),
        })
    }};
}

/// A value compared with ITSELF through references to the same object (an identity shortcut in a comparison
/// would only show here: every other request compares two separately constructed values).
#[macro_export]
macro_rules! self_block {
    ($a:expr) => {{
        let a = $a;
        let r = &a;
        #[allow(clippy::eq_op)]
        let v = json!({
            "eq": guard(|| json!(r == r)),
            "ne": guard(|| json!(r != r)),
            "lt": guard(|| json!(r < r)),
            "le": guard(|| json!(r <= r)),
            "gt": guard(|| json!(r > r)),
            "ge": guard(|| json!(r >= r)),
            "pc": guard(|| ord_str(PartialOrd::partial_cmp(r, r))),
        });
        v
    }};
}

/// Operations every kind of type supports.
#[macro_export]
macro_rules! common_ops {
    ($Q:ty, $req:expr, $op:expr) => {{
        let req: &Value = $req;
        match $op {
            "new" => {
                let x = amt(req, "x");
                let u = unit_at!($Q, req, "u");
                Some(json!({
                    "new": qj!(<$Q as Quantity>::new(x, u)),
                    "xu": qj!(x * u),
                    "ux": qj!(u * x),
                }))
            }
            "scalar" => {
                let x = amt(req, "x");
                let k = amt(req, "k");
                let u = unit_at!($Q, req, "u");
                let q = <$Q as Quantity>::new(x, u);
                Some(json!({
                    "kq": guard(|| qj!(k * q)),
                    "qk": guard(|| qj!(q * k)),
                    "qdk": guard(|| qj!(q / k)),
                    "n_kx": guard(|| json!(enc(k * x))),
                    "n_xk": guard(|| json!(enc(x * k))),
                    "n_xdk": guard(|| json!(enc(x / k))),
                }))
            }
            "fmt" => {
                let x = amt(req, "x");
                let u = unit_at!($Q, req, "u");
                let q = <$Q as Quantity>::new(x, u);
                Some(json!({
                    "s": guard(|| fmt_spec(&q, req)),
                    "us": guard(|| fmt_spec(&u, req)),
                    "xs": guard(|| fmt_spec(&x, req)),
                    "nsym": guard(|| fmt_spec(&u.symbol(), req)),
                    "sym": u.symbol(),
                }))
            }
            "parse" => {
                // amount text -> amount (AmountT::from_str), symbol -> unit
                let t = s(req, "t");
                let sym = s(req, "sym");
                Some(json!({
                    "a": parse_amount_text(t),
                    "u": <$Q as Quantity>::unit_from_symbol(sym).map(|u| format!("{:?}", u)),
                }))
            }
            "sym" => {
                let t = s(req, "t");
                Some(json!({
                    "from_symbol": <<$Q as Quantity>::UnitType as Unit>::from_symbol(t).map(|u| format!("{:?}", u)),
                    "unit_from_symbol": <$Q as Quantity>::unit_from_symbol(t).map(|u| format!("{:?}", u)),
                }))
            }
            _ => None,
        }
    }};
}

#[macro_export]
macro_rules! dump_units {
    ($Q:ty, $with_scale:expr, $extra:expr) => {{
        let us: Vec<Value> = <$Q as Quantity>::iter_units()
            .map(|u| {
                let mut m = json!({
                    "dbg": format!("{:?}", u),
                    "name": Unit::name(&u),
                    "symbol": Unit::symbol(&u),
                    "prefix": Unit::si_prefix(&u).map(|p| format!("{:?}", p)),
                    "prefix_exp": Unit::si_prefix(&u).map(|p| p.exp()),
                    "as_qty": qj!(u.as_qty()),
                    "disp": format!("{}", u),
                });
                let f: &dyn Fn(&<$Q as Quantity>::UnitType, &mut Value) = &$extra;
                f(&u, &mut m);
                m
            })
            .collect();
        let us2: Vec<String> = <<$Q as Quantity>::UnitType as Unit>::iter().map(|u| format!("{:?}", u)).collect();
        (us, us2)
    }};
}

#[macro_export]
macro_rules! ref_type {
    ($Q:ty, $req:expr) => {{
        let req: &Value = $req;
        let op = s(req, "op");
        if let Some(v) = common_ops!($Q, req, op) {
            v
        } else {
            match op {
                "dump" => {
                    let (us, us2) = dump_units!($Q, true, |u: &<$Q as Quantity>::UnitType, m: &mut Value| {
                        // the trait's answers (what generic library code sees) and, separately, what method-call syntax
                        // on the concrete unit type resolves to (an inherent method would shadow the trait's)
                        m["scale"] = json!(enc(LinearScaledUnit::scale(u)));
                        m["is_ref"] = json!(LinearScaledUnit::is_ref_unit(u));
                        m["m_scale"] = json!(enc(u.scale()));
                        m["m_is_ref"] = json!(u.is_ref_unit());
                        m["m_name"] = json!(u.name());
                        m["m_symbol"] = json!(u.symbol());
                        m["m_prefix"] = json!(u.si_prefix().map(|p| format!("{:?}", p)));
                    });
                    json!({
                        "kind": "ref",
                        "units": us,
                        "unit_iter": us2,
                        "ref_q": format!("{:?}", <$Q as HasRefUnit>::REF_UNIT),
                        "ref_u": format!("{:?}", <<$Q as Quantity>::UnitType as LinearScaledUnit>::REF_UNIT),
                        "tyname": std::any::type_name::<$Q>(),
                    })
                }
                "convert" => {
                    let x = amt(req, "x");
                    let u = unit_at!($Q, req, "u");
                    let v = unit_at!($Q, req, "v");
                    let q = <$Q as Quantity>::new(x, u);
                    let c = HasRefUnit::convert(&q, v);
                    json!({
                        "conv": qj!(c),
                        "equiv": enc(HasRefUnit::equiv_amount(&q, v)),
                        "back": guard(|| qj!(HasRefUnit::convert(&c, u))),
                    })
                }
                "cmp" => {
                    let x = amt(req, "x");
                    let y = amt(req, "y");
                    let a = <$Q as Quantity>::new(x, unit_at!($Q, req, "u"));
                    let b = <$Q as Quantity>::new(y, unit_at!($Q, req, "v"));
                    json!({"ab": cmp_block!(a, b), "ba": cmp_block!(b, a), "nat": cmp_block!(x, y), "aa": self_block!(a), "nat_aa": self_block!(x)})
                }
                "arith" => {
                    let x = amt(req, "x");
                    let y = amt(req, "y");
                    let a = <$Q as Quantity>::new(x, unit_at!($Q, req, "u"));
                    let b = <$Q as Quantity>::new(y, unit_at!($Q, req, "v"));
                    json!({
                        "add": guard(|| qj!(a + b)),
                        "sub": guard(|| qj!(a - b)),
                        "bsub": guard(|| qj!(b - a)),
                        "div": guard(|| json!(enc(a / b))),
                        "n_add": guard(|| json!(enc(x + y))),
                        "n_sub": guard(|| json!(enc(x - y))),
                        "n_div": guard(|| json!(enc(x / y))),
                    })
                }
                "scale" => {
                    let x = amt(req, "x");
                    json!({
                        "from_scale": <<$Q as Quantity>::UnitType as LinearScaledUnit>::from_scale(x).map(|u| format!("{:?}", u)),
                        "unit_from_scale": <$Q as HasRefUnit>::unit_from_scale(x).map(|u| format!("{:?}", u)),
                    })
                }
                "fit" => {
                    let m = amt(req, "x");
                    let r = <$Q as HasRefUnit>::_fit(m);
                    json!({"r": qj!(r), "scale": enc(r.unit().scale())})
                }
                other => panic!("HARNESS: unknown op {}", other),
            }
        }
    }};
}

#[macro_export]
macro_rules! noref_type {
    ($Q:ty, $req:expr) => {{
        let req: &Value = $req;
        let op = s(req, "op");
        if let Some(v) = common_ops!($Q, req, op) {
            v
        } else {
            match op {
                "dump" => {
                    let (us, us2) = dump_units!($Q, false, |_u: &<$Q as Quantity>::UnitType, _m: &mut Value| {});
                    json!({"kind": "noref", "units": us, "unit_iter": us2, "tyname": std::any::type_name::<$Q>()})
                }
                "cmp" => {
                    let x = amt(req, "x");
                    let y = amt(req, "y");
                    let a = <$Q as Quantity>::new(x, unit_at!($Q, req, "u"));
                    let b = <$Q as Quantity>::new(y, unit_at!($Q, req, "v"));
                    json!({"ab": cmp_block!(a, b), "ba": cmp_block!(b, a), "nat": cmp_block!(x, y), "aa": self_block!(a), "nat_aa": self_block!(x)})
                }
                "arith" => {
                    let x = amt(req, "x");
                    let y = amt(req, "y");
                    let a = <$Q as Quantity>::new(x, unit_at!($Q, req, "u"));
                    let b = <$Q as Quantity>::new(y, unit_at!($Q, req, "v"));
                    json!({
                        "add": guard(|| qj!(a + b)),
                        "sub": guard(|| qj!(a - b)),
                        "bsub": guard(|| qj!(b - a)),
                        "div": guard(|| json!(enc(a / b))),
                        "n_add": guard(|| json!(enc(x + y))),
                        "n_sub": guard(|| json!(enc(x - y))),
                        "n_div": guard(|| json!(enc(x / y))),
                    })
                }
                other => panic!("HARNESS: unknown op {}", other),
            }
        }
    }};
}

#[macro_export]
macro_rules! single_type {
    ($Q:ty, $req:expr) => {{
        let req: &Value = $req;
        let op = s(req, "op");
        if let Some(v) = common_ops!($Q, req, op) {
            v
        } else {
            match op {
                "dump" => {
                    let (us, us2) = dump_units!($Q, false, |_u: &<$Q as Quantity>::UnitType, _m: &mut Value| {});
                    json!({"kind": "single", "units": us, "unit_iter": us2, "tyname": std::any::type_name::<$Q>()})
                }
                "arith" => {
                    let x = amt(req, "x");
                    let y = amt(req, "y");
                    let a = <$Q as Quantity>::new(x, unit_at!($Q, req, "u"));
                    let b = <$Q as Quantity>::new(y, unit_at!($Q, req, "v"));
                    json!({
                        "add": guard(|| qj!(a + b)),
                        "sub": guard(|| qj!(a - b)),
                        "bsub": guard(|| qj!(b - a)),
                        "div": guard(|| json!(enc(a / b))),
                        "n_add": guard(|| json!(enc(x + y))),
                        "n_sub": guard(|| json!(enc(x - y))),
                        "n_div": guard(|| json!(enc(x / y))),
                    })
                }
                other => panic!("HARNESS: unknown op {}", other),
            }
        }
    }};
}

