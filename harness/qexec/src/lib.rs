//! Shared protocol helpers of the executors (DESIGN.md 2.1).
//!
//! An executor reads one JSON request per line on stdin, performs exactly the named
//! library call, and writes one JSON response per line. It holds no expectations.

pub mod coreops;
pub mod fmtgrid;
pub mod probe;
pub mod synth;

use std::io::{BufRead, Write};
use std::panic::{catch_unwind, AssertUnwindSafe};

pub use quantities::prelude::*;
pub use quantities::{AMNT_ONE, AMNT_ZERO};
pub use serde_json::{json, Value};

pub const BACKEND: &str = if cfg!(feature = "fpdec") { "dec" } else { "f64" };

// ---------------------------------------------------------------- amount encoding

#[cfg(not(feature = "fpdec"))]
pub fn enc(a: AmountT) -> String {
    format!("{:016x}", a.to_bits())
}

#[cfg(not(feature = "fpdec"))]
pub fn dec(s: &str) -> AmountT {
    f64::from_bits(u64::from_str_radix(s, 16).expect("bad f64 bits"))
}

#[cfg(feature = "fpdec")]
pub fn enc(a: AmountT) -> String {
    format!("{}:{}", a.coefficient(), a.n_frac_digits())
}

#[cfg(feature = "fpdec")]
pub fn dec(s: &str) -> AmountT {
    let (c, n) = s.split_once(':').expect("bad decimal encoding");
    quantities::Decimal::new_raw(c.parse::<i128>().expect("bad coeff"), n.parse::<u8>().expect("bad nfrac"))
}

pub fn parse_amount_text(s: &str) -> Option<String> {
    use std::str::FromStr;
    AmountT::from_str(s).ok().map(enc)
}

// ---------------------------------------------------------------- request access

pub fn s<'a>(req: &'a Value, k: &str) -> &'a str {
    req.get(k).and_then(|v| v.as_str()).unwrap_or_else(|| panic!("HARNESS: missing string field {k}"))
}

pub fn n(req: &Value, k: &str) -> usize {
    req.get(k).and_then(|v| v.as_u64()).unwrap_or_else(|| panic!("HARNESS: missing int field {k}")) as usize
}

pub fn amt(req: &Value, k: &str) -> AmountT {
    dec(s(req, k))
}

pub fn opt_n(req: &Value, k: &str) -> Option<usize> {
    req.get(k).and_then(|v| v.as_u64()).map(|x| x as usize)
}

pub fn flag(req: &Value, k: &str) -> bool {
    req.get(k).and_then(|v| v.as_bool()).unwrap_or(false)
}

// ---------------------------------------------------------------- panic capture

fn panic_msg(e: Box<dyn std::any::Any + Send>) -> String {
    if let Some(s) = e.downcast_ref::<&str>() {
        (*s).to_string()
    } else if let Some(s) = e.downcast_ref::<String>() {
        s.clone()
    } else {
        "<non-string panic payload>".to_string()
    }
}

/// Runs `f`, turning a panic into `{"panic": msg}`.
pub fn guard<F: FnOnce() -> Value>(f: F) -> Value {
    match catch_unwind(AssertUnwindSafe(f)) {
        Ok(v) => v,
        Err(e) => json!({ "panic": panic_msg(e) }),
    }
}

pub fn ord_str(o: Option<std::cmp::Ordering>) -> Value {
    match o {
        None => Value::Null,
        Some(std::cmp::Ordering::Less) => json!("lt"),
        Some(std::cmp::Ordering::Equal) => json!("eq"),
        Some(std::cmp::Ordering::Greater) => json!("gt"),
    }
}

/// Main loop shared by all executors.
pub fn serve<F: Fn(&Value) -> Value>(handler: F) {
    std::panic::set_hook(Box::new(|_| {}));
    let stdin = std::io::stdin();
    let stdout = std::io::stdout();
    let mut out = std::io::BufWriter::with_capacity(1 << 16, stdout.lock());
    for line in stdin.lock().lines() {
        let line = line.expect("stdin");
        if line.trim().is_empty() {
            continue;
        }
        let req: Value = serde_json::from_str(&line).expect("HARNESS: request is not JSON");
        let id = req.get("id").cloned().unwrap_or(Value::Null);
        let mut resp = guard(|| handler(&req));
        if let Value::Object(m) = &mut resp {
            m.insert("id".to_string(), id);
        }
        serde_json::to_writer(&mut out, &resp).expect("stdout");
        out.write_all(b"\n").expect("stdout");
    }
    out.flush().expect("stdout");
}

/// Display through a runtime format specification (fields: fill, align, plus, zero, width, prec).
pub fn fmt_spec(v: &dyn std::fmt::Display, req: &Value) -> Value {
    let fill = req.get("fill").and_then(|v| v.as_u64()).unwrap_or(0) as u8;
    let align = req.get("align").and_then(|v| v.as_u64()).unwrap_or(0) as u8;
    match fmtgrid::apply(v, fill, align, flag(req, "plus"), flag(req, "zero"), opt_n(req, "width"), opt_n(req, "prec")) {
        Some(s) => json!(s),
        None => panic!("HARNESS: unsupported format spec"),
    }
}

// ---------------------------------------------------------------- type universe

/// Calls `$m!(name, Type)` for the type named by `$ty`; kinds: ref (reference unit), noref, single.
#[macro_export]
macro_rules! dispatch_type {
    ($ty:expr, $ref_m:ident, $noref_m:ident, $single_m:ident, $req:expr) => {
        match $ty {
            "AmountT" => $ref_m!(quantities::AmountT, $req),
            "Mass" => $ref_m!(quantities::mass::Mass, $req),
            "Length" => $ref_m!(quantities::length::Length, $req),
            "Duration" => $ref_m!(quantities::duration::Duration, $req),
            "Area" => $ref_m!(quantities::area::Area, $req),
            "Volume" => $ref_m!(quantities::volume::Volume, $req),
            "Speed" => $ref_m!(quantities::speed::Speed, $req),
            "Acceleration" => $ref_m!(quantities::acceleration::Acceleration, $req),
            "Force" => $ref_m!(quantities::force::Force, $req),
            "Energy" => $ref_m!(quantities::energy::Energy, $req),
            "Power" => $ref_m!(quantities::power::Power, $req),
            "Frequency" => $ref_m!(quantities::frequency::Frequency, $req),
            "DataVolume" => $ref_m!(quantities::datavolume::DataVolume, $req),
            "DataThroughput" => $ref_m!(quantities::datathroughput::DataThroughput, $req),
            "Temperature" => $noref_m!(quantities::temperature::Temperature, $req),
            "SynA" => $ref_m!($crate::synth::SynA, $req),
            "SynK" => $ref_m!($crate::synth::SynK, $req),
            "SynP" => $ref_m!($crate::synth::SynP, $req),
            "SynS" => $ref_m!($crate::synth::SynS, $req),
            "SynQ" => $ref_m!($crate::synth::SynQ, $req),
            "SynI" => $ref_m!($crate::synth::SynI, $req),
            "SynT" => $ref_m!($crate::synth::SynT, $req),
            "SynBig" => $ref_m!($crate::synth::SynBig, $req),
            "SynX" => $ref_m!($crate::synth::SynX, $req),
            "SynC" => $ref_m!($crate::synth::SynC, $req),
            #[cfg(not(feature = "fpdec"))]
            "SynE" => $ref_m!($crate::synth::SynE, $req),
            "SynTwo" => $noref_m!($crate::synth::SynTwo, $req),
            "SynFive" => $noref_m!($crate::synth::SynFive, $req),
            "SynOne" => $single_m!($crate::synth::SynOne, $req),
            #[cfg(feature = "astro")]
            "astro::Mass" => $ref_m!(astronomical_quantities::Mass, $req),
            #[cfg(feature = "astro")]
            "astro::Length" => $ref_m!(astronomical_quantities::Length, $req),
            #[cfg(feature = "astro")]
            "astro::Duration" => $ref_m!(astronomical_quantities::Duration, $req),
            #[cfg(feature = "astro")]
            "astro::Speed" => $ref_m!(astronomical_quantities::Speed, $req),
            other => panic!("HARNESS: unknown type {}", other),
        }
    };
}

pub fn type_list() -> Vec<(&'static str, &'static str)> {
    let mut v = vec![
        ("AmountT", "ref"),
        ("Mass", "ref"),
        ("Length", "ref"),
        ("Duration", "ref"),
        ("Area", "ref"),
        ("Volume", "ref"),
        ("Speed", "ref"),
        ("Acceleration", "ref"),
        ("Force", "ref"),
        ("Energy", "ref"),
        ("Power", "ref"),
        ("Frequency", "ref"),
        ("DataVolume", "ref"),
        ("DataThroughput", "ref"),
        ("Temperature", "noref"),
        ("SynA", "ref"),
        ("SynK", "ref"),
        ("SynP", "ref"),
        ("SynS", "ref"),
        ("SynQ", "ref"),
        ("SynI", "ref"),
        ("SynT", "ref"),
        ("SynBig", "ref"),
        ("SynX", "ref"),
        ("SynC", "ref"),
        ("SynTwo", "noref"),
        ("SynFive", "noref"),
        ("SynOne", "single"),
    ];
    if !cfg!(feature = "fpdec") {
        v.push(("SynE", "ref"));
    }
    if cfg!(feature = "astro") {
        v.extend([("astro::Mass", "ref"), ("astro::Length", "ref"), ("astro::Duration", "ref"), ("astro::Speed", "ref")]);
    }
    v
}
